"""C06 Sequential evaluation feeds and records exactly what the environment provides.

A recording learner double (scripted answers, optional `score`, batch-aware or visibly failing on batches) is run through
`SequentialCB(record, learn, eval).evaluate` over a generated finite environment.  The oracle is a small reference
evaluator written from the *docstring* of SequentialCB (modes and required keys), from the Learner interface docs and the
"Score Method" section of the Learners notebook - not from `_results`.  It walks the interactions in environment order and
checks, event by event, the learner's call trace (predict(context, actions) -> learn(context, action, reward, probability,
**kwargs)) and then the rows: one per interaction, recorded reward/action/probability equal to the values that went
through the trace, extra fields carried unchanged, time columns only checked for presence.  Environments lacking a field
the mode requires must be rejected with an exception before any row is produced.
"""
import copy
from hypothesis import strategies as st

from vlib.core import Sub
from vlib.util import Violation, require, use_repo
use_repo()
from coba.evaluators import SequentialCB
from coba.context import CobaContext, NullLogger
from coba.environments import Batch
from coba.primitives import is_batch, DiscreteReward, BinaryReward, L1Reward
from coba.pipes.rows import LazyDense, LazySparse
from coba.safety import SafeLearner

ID = "C06"
LEVEL = "exploration"
DESIGN_REF = "DESIGN.md section 6, C06"
RULE = ("case = (learn in on/off/ips/None, eval in on/ips/None, record subset of reward/action/probability/context/actions/"
        "rewards/time, environment descriptor: 0..6 (thorough 0..14) interactions with one context kind, one action type, "
        "per-interaction action sets, a reward form, presence flags for actions/rewards/logged action+reward/probability, "
        "0-2 extra fields, optional Batch(1..4), learner descriptor: answer format, with/without score, batch-aware or not, "
        "scripted choices/probabilities/kwargs/scores); sub-check 'reuse' draws one mode and 2-3 such (environment, learner) pairs for one evaluator object; all drawn by Hypothesis, three quarters of the environments are built "
        "to satisfy the mode's requirements; non-trivial = at least 2 interactions and (mode pair other than (on,on) or extra "
        "fields or batching); distinct = distinct canonical JSON of the case")
ASSUMPTIONS = [
    "continuous-action environments carry 'actions': [] or 'actions': None (coba's own checks treat both as 'no discrete actions'); the key is present, so the environment provides the field",
    "a learner may be handed to the evaluator as a user-wrapped SafeLearner object, and the same object may be evaluated several times on environments of different batchedness; every evaluation is checked on its own",
    "whether a learner understands batches is a property of each method: the doubles refuse or accept batches independently in predict, learn and score; a method that accepts them must receive one call per batched interaction with that interaction's lists, a method that refuses them one call per row",
    "logged propensities range from 1e-6 to 1 (log-uniform, plus a few round values); the IPS reward is exactly reward/probability however small the probability is - nothing in the docstring clips or floors it",
    "an evaluator object may be used for any number of evaluations (an Experiment shares one evaluator between all learner/environment pairs); what it requires of an environment is decided per evaluation, for the learner at hand",
    "a logged record whose 'probability' is None (LoggedInteraction's default for an unknown propensity) gets IPS weight 1 for that record only - coba divides by (probability or 1) per interaction in OpeRewards, DRReward and the VW label, and test_off_ips_actions_no_prob pins weight 1 for absent propensities; off-policy learn receives the None; a probability of 0 is not generated (nothing documents it)",
    "the reference evaluator encodes the SequentialCB docstring: on needs actions+rewards, off needs action+reward, ips needs actions+action+reward+probability and rewards the on-policy action with reward/probability if it equals the logged action else 0",
    "a missing 'probability' may be rejected or treated as 1 (coba's own test_off_ips_actions_no_prob pins the latter); eval='ips' with a learner implementing score may use score(context,actions,logged action)*reward/probability instead of a prediction (Learners notebook, 'Score Method'), and then may also accept an environment without 'actions'",
    "with eval=None the columns 'action' and 'probability' are neither required nor forbidden; a None probability may be recorded as None or omitted; learn_time is optional when learn=None",
    "for a batched environment the call trace is compared batch by batch (predict for the whole batch, then learn for the whole batch); a learner that cannot batch sees the rows of a batch one by one in order; one extra predict on the first row of the first batch (SafeLearner's layout probe) is tolerated",
    "action-only answers over sparse-dict actions and all answers over the empty (continuous) action set use the documented dict hints; batch-aware doubles answer row-major; no PMF answers (C15 covers layouts and formats)",
    "lazy rows (LazyDense/LazySparse) are generated for contexts only and must reach the learner and the rows as plain lists/dicts",
    "environments carry 'rewards' only together with 'actions'; action sets have no duplicates; categorical values are not generated (C10)",
    "values are compared with == (coba hands the learner float copies of the actions 0 and 1)",
]

CobaContext.logger = NullLogger()

RECORDABLE = ["reward", "action", "probability", "context", "actions", "rewards", "time"]
EXCLUDED = {"context", "actions", "rewards", "action", "reward", "probability"}

class NoBatch(Exception):
    """raised by doubles that cannot handle batched arguments"""

# ----------------------------------------------------------------------------------------- environment
class TableReward:
    """a user-defined reward function (plain callable)"""
    def __init__(self, actions, values):
        self.actions, self.values = actions, values
    def __call__(self, action):
        for a, v in zip(self.actions, self.values):
            if a == action: return v
        return 0

def make_rewards(env, row, actions):
    rtype = env["rtype"]
    if rtype == "list": return list(row["rvals"])
    if rtype == "dpair": return DiscreteReward(actions, list(row["rvals"]))
    if rtype == "dmap": return DiscreteReward(dict(zip(actions, row["rvals"])))
    if rtype == "binary": return BinaryReward(actions[row["argmax"] % len(actions)], row["rvals"][0])
    if rtype == "table": return TableReward(actions, list(row["rvals"]))
    if rtype == "l1": return L1Reward(row["rvals"][0])
    raise ValueError(rtype)

def ref_reward(env, row, action):
    """the environment's reward for `action`, computed from the descriptor"""
    rtype = env["rtype"]
    if rtype == "l1": return -abs(action - row["rvals"][0])
    idx = [i for i, a in enumerate(row["actions"]) if a == action]
    if rtype == "binary":
        return row["rvals"][0] if idx and idx[0] == row["argmax"] % len(row["actions"]) else 0
    return row["rvals"][idx[0]] if idx else 0

def make_interaction(env, row):
    d = {}
    f = env["fields"]
    if env["has_context"]: d["context"] = copy.deepcopy(row["ctx"])
    if env.get("lazy") and env["ckind"] == "list": d["context"] = LazyDense(d["context"])      # as file readers produce them
    if env.get("lazy") and env["ckind"] == "dict": d["context"] = LazySparse(d["context"])
    actions = copy.deepcopy(row["actions"])
    if f["actions"]: d["actions"] = None if env.get("actions_none") else actions      # continuous actions: [] or None
    if f["rewards"]: d["rewards"] = make_rewards(env, row, actions)
    if f["logged"]:
        d["action"] = copy.deepcopy(row["log_action"])
        d["reward"] = row["log_reward"]
        if f["probability"]: d["probability"] = row["log_prob"]
    for k in env["extras"]:
        d[k] = copy.deepcopy(row["extras"][k])
    return d

class Env:
    def __init__(self, env):
        self.env = env
    @property
    def params(self):
        return {}
    def read(self):
        rows = [make_interaction(self.env, r) for r in self.env["rows"]]
        if self.env["batch"]:
            return Batch(self.env["batch"]).filter(rows)
        return rows

# ----------------------------------------------------------------------------------------- the recording learner double
def takes_batches(spec, method):
    """whether the double's `method` understands batched arguments (per method; older cases carry one flag for all)"""
    return spec.get("batch_ok_" + method, spec["batch_ok"]) if method != "predict" else spec["batch_ok"]

class RecLearner:
    def __init__(self, spec):
        self.spec = spec
        self.events = []
        self.k = 0
        self.ks = 0

    def _answer(self, ctx, actions):
        script = self.spec["script"]
        s = script[self.k % len(script)]
        self.k += 1
        a = actions[s["choice"] % len(actions)] if actions else s["x"]
        kw = copy.deepcopy(s["kw"]) if self.spec["fmt"] in ("AK", "APK") else {}
        p = s["p"] if self.spec["fmt"] in ("AP", "APK") else None
        return a, p, kw

    def _encode(self, a, p, kw, actions):
        fmt = self.spec["fmt"]
        hint = (not actions) or (fmt in ("A", "AK") and isinstance(a, dict))
        if fmt == "A": return {"action": a} if hint else a
        if fmt == "AP": return {"action_prob": (a, p)} if hint else (a, p)
        if fmt == "AK": return ({"action": a}, kw) if hint else (a, kw)
        if fmt == "APK": return ({"action_prob": (a, p)}, kw) if hint else (a, p, kw)
        raise ValueError(fmt)

    def predict(self, context, actions):
        if is_batch(context) or is_batch(actions):
            if not takes_batches(self.spec, "predict"):
                raise NoBatch("this learner does not understand batches")
            rows, out = [], []
            n = len(actions) if is_batch(actions) else len(context)
            ctxs = list(context) if is_batch(context) else [context] * n      # an environment without contexts: None for the batch
            acts = list(actions) if is_batch(actions) else [actions] * n
            for x, A in zip(ctxs, acts):
                a, p, kw = self._answer(x, A)
                rows.append((x, A, (a, p, kw))); out.append(self._encode(a, p, kw, A))
            self.events.append({"k": "predict", "batched": True, "rows": rows})
            return out
        a, p, kw = self._answer(context, actions)
        self.events.append({"k": "predict", "batched": False, "rows": [(context, actions, (a, p, kw))]})
        return self._encode(a, p, kw, actions)

    def learn(self, context, action, reward, probability, **kwargs):
        if is_batch(context) or is_batch(action) or is_batch(reward):
            if not takes_batches(self.spec, "learn"):
                raise NoBatch("this learner does not understand batches")
            n = len(reward)
            ctxs = list(context) if is_batch(context) else [context] * n
            probs = list(probability) if probability is not None else [None] * n
            rows = [(ctxs[i], action[i], reward[i], probs[i], {k: v[i] for k, v in kwargs.items()}) for i in range(n)]
            self.events.append({"k": "learn", "batched": True, "rows": rows})
        else:
            self.events.append({"k": "learn", "batched": False, "rows": [(context, action, reward, probability, kwargs)]})

class RecScoreLearner(RecLearner):
    def score(self, context, actions, action):
        if context is None and actions is None and action is None:
            return 0.5   # SafeLearner.has_score probes with three Nones
        script = self.spec["script"]
        if is_batch(context) or is_batch(actions) or is_batch(action):
            if not takes_batches(self.spec, "score"):
                raise NoBatch("this learner does not understand batches")
            n = len(action)
            ctxs = list(context) if is_batch(context) else [context] * n
            acts = list(actions) if actions is not None else [None] * n
            rows, out = [], []
            for i in range(n):
                v = script[self.ks % len(script)]["score"]; self.ks += 1
                rows.append((ctxs[i], acts[i], action[i], v)); out.append(v)
            self.events.append({"k": "score", "batched": True, "rows": rows})
            return out
        v = script[self.ks % len(script)]["score"]; self.ks += 1
        self.events.append({"k": "score", "batched": False, "rows": [(context, actions, action, v)]})
        return v

# ----------------------------------------------------------------------------------------- reference (from the docstring)
def needs(learn, eval_):
    need = set()
    if learn == "on" or eval_ == "on": need |= {"actions", "rewards"}
    if learn == "off": need |= {"action", "reward"}
    if learn == "ips" or eval_ == "ips": need |= {"actions", "action", "reward", "probability"}
    return need

def env_fields(env):
    f = env["fields"]
    have = set()
    if env["has_context"]: have.add("context")
    if f["actions"]: have.add("actions")
    if f["rewards"]: have.add("rewards")
    if f["logged"]: have |= {"action", "reward"}
    if f["logged"] and f["probability"]: have.add("probability")
    return have

def missing_fields(case):
    """-> (strictly missing, leniently missing) for the mode of the case"""
    learn, eval_ = case["learn"], case["eval"]
    miss = needs(learn, eval_) - env_fields(case["env"])
    lenient = set()
    if "probability" in miss: lenient.add("probability")
    if "actions" in miss and eval_ == "ips" and learn in (None, "off") and case["learner"]["score"]: lenient.add("actions")
    return miss - lenient, lenient & miss

def ips(row, has_prob, action):
    value = row["log_reward"] / ((row["log_prob"] if has_prob else None) or 1)
    return value if action == row["log_action"] else 0

class Walker:
    def __init__(self, events):
        self.events, self.i = events, 0
    def peek(self):
        return self.events[self.i] if self.i < len(self.events) else None
    def take(self):
        e = self.peek(); self.i += 1
        return e

def take_rows(w, kind, n, batched_call, where):
    """consume the events that deliver `n` rows of `kind`: one batched event or n single ones"""
    rows = []
    if batched_call:
        e = w.take()
        require(e is not None and e["k"] == kind and e["batched"] and len(e["rows"]) == n,
                f"expected one batched {kind} call over {n} rows", got=None if e is None else (e["k"], e["batched"], len(e["rows"])), **where)
        return e["rows"]
    for j in range(n):
        e = w.take()
        require(e is not None and e["k"] == kind and not e["batched"], f"expected a {kind} call (row {j} of the group)",
                got=None if e is None else (e["k"], e["batched"]), **where)
        rows.append(e["rows"][0])
    return rows

def check(case, events, out_rows):
    """Walk the interactions in environment order; check trace and rows."""
    learn, eval_, record = case["learn"], case["eval"], case["record"]
    record = [record] if isinstance(record, str) else record
    env, lrn = case["env"], case["learner"]
    f = env["fields"]
    have = env_fields(env)
    rows = env["rows"]
    b = env["batch"]
    groups = [rows[i:i + b] for i in range(0, len(rows), b)] if b else [[r] for r in rows]
    # SafeLearner finds out per method whether the learner understands batches: a method that does gets the whole batch in
    # one call, a method that does not is called once per row
    batched_call = bool(b) and takes_batches(lrn, "predict")
    batched_learn = bool(b) and takes_batches(lrn, "learn")
    batched_score = bool(b) and takes_batches(lrn, "score")
    has_prob = "probability" in have
    discrete = "actions" in have and len(rows[0]["actions"]) > 0 if rows else False

    pred_required = learn in ("on", "ips") or eval_ == "on" or (eval_ == "ips" and not lrn["score"])
    # a record list naming 'action' / 'probability' asks for the learner's own choice and its probability: with an evaluation
    # mode set these columns exist only if the learner predicted, so the score() short-cut of eval='ips' does not apply
    # (only asserted where the environment offers 'actions' to predict from)
    if eval_ == "ips" and lrn["score"] and "actions" in have and ("action" in record or "probability" in record): pred_required = True
    pred_optional = not pred_required and eval_ == "ips"

    # SafeLearner may re-ask the first row of the first batch once to find out the layout of the answer: tolerated
    n_pred = sum(1 for e in events if e["k"] == "predict")
    if batched_call and n_pred == len(groups) + 1 and len(events) > 1 and events[0]["k"] == "predict" and events[1]["k"] == "predict":
        e0, e1 = events[0], events[1]
        if len(e1["rows"]) == 1 and e1["rows"][0][0] == e0["rows"][0][0] and e1["rows"][0][1] == e0["rows"][0][1]:
            events = [events[0]] + events[2:]
    w = Walker(events)
    expected = []
    pos = 0
    for gi, group in enumerate(groups):
        where = dict(group=gi, learn=learn, eval=eval_, record=record, batch=b)
        n = len(group)
        preds = None
        nxt = w.peek()
        if pred_required or (pred_optional and nxt is not None and nxt["k"] == "predict"):
            preds = take_rows(w, "predict", n, batched_call, where)
            for j, (r, pr) in enumerate(zip(group, preds)):
                want_actions = r["actions"] if "actions" in have and not env.get("actions_none") else None
                want_ctx = r["ctx"] if "context" in have else None
                require(pr[0] == want_ctx and pr[1] == want_actions, "predict did not receive this interaction's context and actions",
                        got=(pr[0], pr[1]), want=(want_ctx, want_actions), row=pos + j, **where)
                if env.get("lazy") and env["ckind"] in ("list", "dict"):
                    require(type(pr[0]) in (list, dict), "a lazy context row reached the learner without being materialised (Finalize)", got=type(pr[0]).__name__, **where)
        eval_rewards = [None] * n
        if eval_ == "on":
            eval_rewards = [ref_reward(env, r, pr[2][0]) for r, pr in zip(group, preds)]
        elif eval_ == "ips":
            nxt = w.peek()
            if nxt is not None and nxt["k"] == "score":
                require(lrn["score"], "score was called on a learner without score", **where)
                scores = take_rows(w, "score", n, batched_score, where)
                for j, (r, sc) in enumerate(zip(group, scores)):
                    want_actions = r["actions"] if "actions" in have and not env.get("actions_none") else None
                    want_ctx = r["ctx"] if "context" in have else None
                    require(sc[0] == want_ctx and sc[1] == want_actions and sc[2] == r["log_action"], "score did not receive (context, actions, logged action)",
                            got=sc[:3], want=(want_ctx, want_actions, r["log_action"]), row=pos + j, **where)
                eval_rewards = [sc[3] * ips(r, has_prob, r["log_action"]) for r, sc in zip(group, scores)]
            else:
                require(preds is not None, "eval='ips' produced neither a prediction nor a score call", **where)
                eval_rewards = [ips(r, has_prob, pr[2][0]) for r, pr in zip(group, preds)]
        if learn:
            got = take_rows(w, "learn", n, batched_learn, where)
            for j, (r, lr) in enumerate(zip(group, got)):
                want_ctx = r["ctx"] if "context" in have else None
                if learn == "off":
                    want = (want_ctx, r["log_action"], r["log_reward"], r["log_prob"] if has_prob else None, {})
                else:
                    a, p, kw = preds[j][2]
                    reward = ref_reward(env, r, a) if learn == "on" else ips(r, has_prob, a)
                    want = (want_ctx, a, reward, p, kw)
                ok = lr[0] == want[0] and lr[1] == want[1] and lr[2] == want[2] and lr[3] == want[3] and dict(lr[4]) == want[4]
                require(ok, "learn did not receive (context, action, reward, probability, **kwargs) of its interaction", got=lr, want=want, row=pos + j, **where)
        for j, r in enumerate(group):
            must, may = {}, {}
            pr = preds[j][2] if preds is not None else None
            if eval_ and "reward" in record: must["reward"] = eval_rewards[j]
            if pr is not None:
                tgt = must if eval_ else may
                if "action" in record: tgt["action"] = pr[0]
                if "probability" in record:
                    if pr[1] is not None and eval_: must["probability"] = pr[1]
                    else: may["probability"] = pr[1]
            if "context" in record:
                (must if "context" in have else may)["context"] = r["ctx"] if "context" in have else None
            if "actions" in record and "actions" in have: must["actions"] = None if env.get("actions_none") else r["actions"]
            if "rewards" in record and "rewards" in have:
                must["rewards"] = [ref_reward(env, r, a) for a in r["actions"]] if discrete else ("fn", r["rvals"][0])
            if "time" in record:
                must["predict_time"] = "time"
                (must if learn else may)["learn_time"] = "time"
            for k in env["extras"]: must[k] = r["extras"][k]
            expected.append((must, may))
        pos += n
    require(w.peek() is None, "the learner was called more often than the environment has interactions", extra=[(e["k"], len(e["rows"])) for e in events[w.i:w.i + 3]])

    # rows: one per interaction (or none at all when nothing had to be recorded)
    if all(not must for must, _ in expected) and len(out_rows) != len(expected):
        # nothing had to be recorded: no rows at all is fine, and so are rows holding only optional columns
        allowed = set().union(*[set(may) for _, may in expected]) if expected else set()
        for row in out_rows:
            require(set(row) <= allowed, "a row with unexpected columns although nothing had to be recorded", row=row, learn=learn, eval=eval_, record=record)
        return
    require(len(out_rows) == len(expected), "expected exactly one row per interaction", rows=len(out_rows), interactions=len(expected), learn=learn, eval=eval_, record=record, batch=b, first=out_rows[:2])
    for i, (row, (must, may)) in enumerate(zip(out_rows, expected)):
        for k, v in must.items():
            require(k in row, f"row {i} lacks the column {k!r}", row=row, learn=learn, eval=eval_, record=record, batch=b)
        for k, got in row.items():
            require(k in must or k in may, f"row {i} has an unexpected column {k!r}", row=row, learn=learn, eval=eval_, record=record, batch=b)
            want = must[k] if k in must else may[k]
            if want == "time" and k in ("predict_time", "learn_time"):
                require(isinstance(got, (int, float)) and not isinstance(got, bool), f"row {i}: {k} is not a duration", got=got)
            elif isinstance(want, tuple) and len(want) == 2 and want[0] == "fn" and k == "rewards":
                require(got == L1Reward(want[1]), f"row {i}: the recorded reward function is not the environment's", got=got, want=want)
            else:
                require(got == want, f"row {i}: column {k!r} differs from what the environment/learner provided", got=got, want=want,
                        learn=learn, eval=eval_, record=record, batch=b)

# ----------------------------------------------------------------------------------------- run
def run_case(case):
    ev = SequentialCB(record=copy.deepcopy(case["record"]), learn=case["learn"], eval=case["eval"], seed=case.get("seed"))
    run_pair(ev, case)

def run_reuse(case):
    """One evaluator object, several successive evaluate() calls (an Experiment shares its evaluator between all
    learner/environment pairs): every call is checked against the reference for its own pair."""
    ev = SequentialCB(record=copy.deepcopy(case["record"]), learn=case["learn"], eval=case["eval"], seed=case.get("seed"))
    shared = None
    if case.get("shared_learner"):
        # the user hands every evaluation the same, already wrapped SafeLearner object (all pairs carry the same learner spec)
        lrn = case["pairs"][0]["learner"]
        double = (RecScoreLearner if lrn["score"] else RecLearner)(lrn)
        shared = (double, SafeLearner(double))
    for i, pair in enumerate(case["pairs"]):
        try:
            run_pair(ev, dict(case, env=pair["env"], learner=pair["learner"]), shared)
        except Violation as e:
            raise Violation(f"evaluation {i + 1} of {len(case['pairs'])} with the same evaluator object: {e}") from e

class Events:
    """the events a (possibly shared) double recorded during one evaluation"""
    def __init__(self, events): self.events = events

def run_pair(ev, case, shared=None):
    lrn = case["learner"]
    double, given = shared if shared else ((RecScoreLearner if lrn["score"] else RecLearner)(lrn),) * 2
    start = len(double.events)
    out_rows, error = [], None
    try:
        for row in ev.evaluate(Env(case["env"]), given):
            out_rows.append(row)
    except Exception as e:     # examined below: the property allows (demands) rejection of some environments
        error = e
    learner = Events(double.events[start:])
    if not case["env"]["rows"]:
        if error is not None: raise error
        require(not out_rows and not learner.events, "an empty environment produced rows or learner calls", rows=out_rows)
        return
    strict, lenient = missing_fields(case)
    if strict:
        require(error is not None, "an environment lacking a field the mode requires was evaluated instead of rejected",
                missing=sorted(strict), learn=case["learn"], eval=case["eval"], rows=out_rows[:2])
        require(not out_rows, "rows were produced before the environment was rejected", missing=sorted(strict), rows=out_rows[:2])
        return
    if error is not None:
        if lenient and not out_rows:
            return          # the docstring lists the field as required: rejecting is acceptable
        raise error
    check(case, learner.events, out_rows)

# ----------------------------------------------------------------------------------------- generators
APOOL = {
    "int01":   [0, 1, 2, 3, 5],
    "int":     [2, 3, 5, 7, -4, 10],
    "float":   [0.25, 0.5, 0.75, 0.0, 1.0, 2.5],
    "str":     ["a", "b", "ab", "cd", "xyz", "p1"],
    "tuple":   [(1, 0, 0), (0, 1, 0), (0, 0, 1), (0.5, 0.5), (2, 7), (0.0, 1.0)],
    "list":    [[1, 0, 0], [0, 1, 0], [0.5, 0.5], [1, 0], [0.25, 0.25, 0.5], [3, 4]],
    "sparse":  [{"a": 1}, {"b": 2, "c": 1}, {"a": 1, "b": 0.5}, {0: 1.0}, {"p": 1, "q": 2, "r": 3}, {"x": 0.5, "y": 0.5}],
}
HASHABLE = {"int01", "int", "float", "str", "tuple"}
QUARTERS = [0, 0.25, 0.5, 1, 1.5, 2, -1, 3, 0.75]
PROBS = [1.0, 0.5, 0.25, 0.125, 0.75, 1 / 3, 0.1]
KWVALS = [0, 1, "s", None, [1, 2], {"z": 1}, 2.5]
EXTRA_VALS = [0, 7, "u", None, [1, 2], {"z": 1}, 2.5, (1, 2)]

BIG = 2 ** 96

class Digits:
    """reads small numbers off one big integer (one Hypothesis draw per row keeps generation cheap and shrinks towards 0)"""
    def __init__(self, z):
        # Hypothesis prefers integers of few bits; a bijective mix spreads them over all digits (0 stays 0)
        z = (z * 0x9E3779B97F4A7C15F39CC061) % BIG
        self.z = z ^ (z >> 48)
    def __call__(self, mod):
        v = self.z % mod
        self.z //= mod
        return v

CTX_ATOMS = [0, 1, 2, 5, "s", 0.5, None]
CTX_KEYS = ["f", "g", "h", 1]

def context_value(kind, d):
    if kind in ("none", "nokey"): return None
    if kind == "int": return d(13) - 3
    if kind == "float": return [0.5, 1.25, -2.0, 0.0, 3.5][d(5)]
    if kind == "str": return ["x", "yy", "ctx", ""][d(4)]
    if kind == "list": return [CTX_ATOMS[d(len(CTX_ATOMS))] for _ in range(d(4))]
    if kind == "tuple": return tuple(d(6) for _ in range(1 + d(3)))
    if kind == "dict": return {CTX_KEYS[(j + d(4)) % 4]: CTX_ATOMS[d(6)] for j in range(d(4))}
    raise ValueError(kind)

def log_probability(d):
    """a logged propensity: one of a few round values, or log-uniform between 1e-6 and 1 (rare actions get large IPS weights)"""
    if d(2): return PROBS[d(len(PROBS))]
    return 10 ** (-d(6001) / 1000)

@st.composite
def cases(draw, tier):
    pick = lambda xs: draw(st.sampled_from(xs))
    coin = lambda: draw(st.booleans())
    learn = pick(["on", "off", "ips", None])
    eval_ = pick(["on", "ips", None])
    rbits = draw(st.integers(0, 127))
    record = [r for i, r in enumerate(RECORDABLE) if rbits >> i & 1]
    if len(record) == 1 and coin(): record = record[0]
    pair = draw(pairs(tier, learn, eval_, False))
    return {"learn": learn, "eval": eval_, "record": record, "env": pair["env"], "learner": pair["learner"], "seed": pick([None, 3])}

@st.composite
def reuse_cases(draw, tier):
    pick = lambda xs: draw(st.sampled_from(xs))
    # the modes in which what an environment must provide depends on the learner (score) are drawn more often
    learn, eval_ = pick([(None, "ips"), ("off", "ips"), (None, "ips"), ("off", "ips")] + [(l, e) for l in ["on", "off", "ips", None] for e in ["on", "ips", None]])
    rbits = draw(st.integers(0, 127))
    record = [r for i, r in enumerate(RECORDABLE) if rbits >> i & 1]
    n = pick([2, 2, 3])
    case = {"learn": learn, "eval": eval_, "record": record, "pairs": [draw(pairs(tier, learn, eval_, True)) for _ in range(n)], "seed": pick([None, 3])}
    if draw(st.integers(0, 2)) == 0:
        # one user-wrapped SafeLearner object for all evaluations; the environments differ (batched / un-batched among others)
        case["shared_learner"] = True
        for p in case["pairs"][1:]: p["learner"] = case["pairs"][0]["learner"]
    return case

@st.composite
def pairs(draw, tier, learn, eval_, score_style_logs):
    """an (environment, learner double) pair for the given mode"""
    pick = lambda xs: draw(st.sampled_from(xs))
    coin = lambda: draw(st.booleans())
    need = needs(learn, eval_)
    fbits = draw(st.integers(0, 63))
    complete = fbits >> 4 != 0
    flag = lambda i, name: bool((name in need or fbits >> i & 1) if complete else fbits >> i & 1)
    fields = {"actions": flag(0, "actions"), "rewards": flag(1, "rewards"), "logged": flag(2, "action"), "probability": flag(3, "probability")}
    if fbits >> 4 == 1:
        # everything the mode needs EXCEPT one required group: the environments that must be rejected although most of what
        # the mode needs is there (e.g. learn='off' with eval='on' on purely simulated interactions)
        groups = [g for g, key in (("actions", "actions"), ("rewards", "rewards"), ("logged", "action"), ("probability", "probability")) if key in need]
        if groups:
            fields = {"actions": True, "rewards": True, "logged": True, "probability": True}
            fields[groups[(fbits & 3) % len(groups)]] = False
    if score_style_logs and eval_ == "ips" and learn in (None, "off") and coin():
        # a log without action sets: enough for score-based IPS, not enough for a learner without score
        fields = {"actions": False, "rewards": False, "logged": True, "probability": bool(fbits & 1)}
    if not fields["actions"]: fields["rewards"] = False
    if not fields["logged"]: fields["probability"] = False
    atype = pick(sorted(APOOL))
    continuous = fields["actions"] and draw(st.integers(0, 9)) == 0
    if continuous:
        rtype = "l1"
    else:
        rtype = pick(["list", "dpair", "binary", "table"] + (["dmap"] if atype in HASHABLE else []))
    ckind = pick(["none", "nokey", "int", "float", "str", "list", "tuple", "dict"])
    if ckind == "nokey" and not (fields["actions"] or fields["logged"]):
        ckind = "none"       # an interaction without any field is not an interaction
    extras = pick([[], [], ["L"], ["tag", "L"], ["w2"]])
    batch = pick([None, None, 1, 2, 3, 4])
    same_actions = coin()
    kwkeys = pick([["k"], ["k", "m"], []])
    learner = {"fmt": pick(["A", "AP", "AK", "APK"]), "score": coin(), "batch_ok": coin()}
    # batch capability per method: usually the same for all, sometimes predict / learn / score differ
    mixed = draw(st.integers(0, 2)) == 0
    learner["batch_ok_learn"] = coin() if mixed else learner["batch_ok"]
    learner["batch_ok_score"] = coin() if mixed else learner["batch_ok"]
    nrows = pick([0, 1, 2, 2, 3, 3, 4, 5, 6] + ([] if tier == "quick" else [8, 10, 14]))
    zs = draw(st.lists(st.integers(0, BIG - 1), min_size=nrows, max_size=nrows))
    pool = APOOL[atype]
    rows, fixed = [], None
    for z in zs:
        d = Digits(z)
        if continuous:
            actions = []
            log_action = [0.5, 1.0, 2.0, -1.0][d(4)]
        else:
            n, start = 1 + d(4), d(len(pool))
            if fixed is None or not same_actions:
                fixed = [pool[(start + j) % len(pool)] for j in range(n)]
            actions = fixed
            k, other = d(len(actions)), d(4)
            log_action = actions[k] if (fields["actions"] or other) else pool[d(len(pool))]
        nvals = max(1, len(actions))
        rows.append({
            "ctx": context_value(ckind, d), "actions": actions,
            "rvals": [QUARTERS[d(len(QUARTERS))] for _ in range(nvals)], "argmax": d(4),
            "log_action": log_action, "log_reward": QUARTERS[d(len(QUARTERS))],
            # a record without propensity carries None (the default of LoggedInteraction); the first record more often
            "log_prob": log_probability(d) if d(3 if not rows else 6) else None,
            "extras": {k: EXTRA_VALS[d(len(EXTRA_VALS))] for k in extras},
        })
    lazy = ckind in ("list", "dict") and coin()
    env = {"has_context": ckind != "nokey", "ckind": ckind, "lazy": lazy, "actions_none": bool(continuous and coin()), "atype": atype, "rtype": rtype, "fields": fields, "extras": extras,
           "batch": batch, "rows": rows}
    script = []
    for z in draw(st.lists(st.integers(0, BIG - 1), min_size=1, max_size=5)):
        d = Digits(z)
        script.append({"choice": d(4), "p": PROBS[d(len(PROBS))], "x": [0.5, 1.0, 2.0, -1.0][d(4)],
                       "kw": {k: KWVALS[d(len(KWVALS))] for k in kwkeys}, "score": [1.0, 0.5, 0.25, 0.0, 0.75][d(5)]})
    learner["script"] = script
    return {"env": env, "learner": learner}

# ----------------------------------------------------------------------------------------- evidence
def nontrivial(case):
    env = case["env"]
    return len(env["rows"]) >= 2 and ((case["learn"], case["eval"]) != ("on", "on") or bool(env["extras"]) or bool(env["batch"]))

def classes(case):
    env = case["env"]
    strict, lenient = missing_fields(case) if env["rows"] else (set(), set())
    out = [f"learn={case['learn']}", f"eval={case['eval']}", f"fmt={case['learner']['fmt']}", f"rtype={env['rtype']}",
           "batched" if env["batch"] else "unbatched", "score" if case["learner"]["score"] else "no-score"]
    if env["batch"]:
        lr = case["learner"]
        out.append("batch-aware" if lr["batch_ok"] else "per-row-fallback")
        caps = (lr["batch_ok"], lr.get("batch_ok_learn", lr["batch_ok"]), lr.get("batch_ok_score", lr["batch_ok"]))
        if case["learn"] and caps[0] != caps[1]: out.append("mixed:predict-" + ("yes" if caps[0] else "no") + "/learn-" + ("yes" if caps[1] else "no"))
        if lr["score"] and case["eval"] == "ips" and caps[2] != caps[0]: out.append("mixed:score differs from predict")
    if not env["rows"]: out.append("empty-env")
    elif strict:
        out.append("must-reject")
        out.append("must-reject:only " + "+".join(sorted(strict)) + " missing" if len(needs(case["learn"], case["eval"]) - strict) >= 2 else "must-reject:little present")
    elif lenient: out.append("lenient-missing")
    else: out.append("accepted")
    if env["extras"]: out.append("extras")
    if env.get("lazy"): out.append("lazy-context")
    if env.get("actions_none"): out.append("actions=None (continuous)")
    if env["fields"]["probability"] and any(r["log_prob"] is not None and r["log_prob"] < 0.02 for r in env["rows"]):
        out.append("propensity<0.02" + (":ips" if "ips" in (case["learn"], case["eval"]) else ""))
    if env["fields"]["probability"] and env["rows"]:
        nn = sum(1 for r in env["rows"] if r["log_prob"] is None)
        if 0 < nn < len(env["rows"]): out.append("mixed-None-propensities" + (":first-None" if env["rows"][0]["log_prob"] is None else ""))
    rec = case["record"]
    if "time" in ([rec] if isinstance(rec, str) else rec): out.append("record-time")
    return out

def view(case):
    env = dict(case["env"]); env["rows"] = env["rows"][:2]
    lrn = dict(case["learner"]); lrn["script"] = lrn["script"][:2]
    return dict(case, env=env, learner=lrn)

def classify(case, exc):
    return None

def as_single(case, pair):
    return dict(case, env=pair["env"], learner=pair["learner"])

def reuse_nontrivial(case):
    return sum(1 for p in case["pairs"] if p["env"]["rows"]) >= 2

def reuse_classes(case):
    out = [f"learn={case['learn']}", f"eval={case['eval']}", f"evaluations={len(case['pairs'])}"]
    if case.get("shared_learner"):
        bs = [bool(p["env"]["batch"]) for p in case["pairs"] if p["env"]["rows"]]
        out.append("shared wrapped learner" + (": batched and un-batched evaluations" if len(set(bs)) > 1 else ""))
    kinds = []
    for p in case["pairs"]:
        if not p["env"]["rows"]: kinds.append("empty"); continue
        strict, lenient = missing_fields(as_single(case, p))
        kinds.append("reject" if strict else "lenient" if lenient else "accept")
    out.append("outcomes=" + ",".join(kinds))
    scores = [p["learner"]["score"] for p in case["pairs"]]
    if len(set(scores)) > 1: out.append("score-then-no-score" if scores[0] else "no-score-then-score")
    if case["eval"] == "ips" and case["learn"] in (None, "off") and len(set(scores)) > 1 and any(not p["env"]["fields"]["actions"] for p in case["pairs"]):
        out.append("requirements-depend-on-learner")
    return out

def reuse_view(case):
    return dict(case, pairs=[view(as_single(case, p)) for p in case["pairs"]][:2])

SUBCHECKS = [
    Sub(name="modes", run=run_case, strategy=cases, nontrivial=nontrivial, classes=classes, classify=classify, quick=6000, thorough=150000,
        quick_shards=4, sample_view=view,
        what="generated environment x learn x eval x record x recording learner: call trace and rows against a reference evaluator written from the SequentialCB docstring; environments lacking required fields must raise before any row"),
    Sub(name="reuse", run=run_reuse, strategy=reuse_cases, nontrivial=reuse_nontrivial, classes=reuse_classes, quick=2000, thorough=60000,
        quick_shards=2, sample_view=reuse_view,
        what="one SequentialCB object, 2-3 successive evaluate() calls with independently generated (environment, learner double) pairs (with/without score, with/without the optional fields, batched or not): every call is checked against the reference for its own pair - trace, rows, rejection"),
]
