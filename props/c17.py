"""C17 Indexed table queries return exactly what a full scan would.

Three sub-checks, all against a list-of-dicts reference model that never looks at coba's Table:

ops    generated operation sequences (insert rows as lists / dicts that add columns / column mappings, index,
       where in every spelling, where-of-where, groupby, copy) on a real Table and on the model; after every
       step the table's rows, columns and length are compared, every where() result is compared with the
       model's row-by-row filter *and* with the same query on a freshly built, un-indexed Table holding the
       same rows (bisect-vs-scan differential), groupby with the partition of the rows by index prefix.
grid   bounded exhaustive: every table of <= 3 (thorough: <= 5) rows over a tiny two-column domain with
       Missing, every index choice, every operator with every argument around the data range, every
       small 'in' list incl. duplicates and absent values.
views  bounded exhaustive: View(View(data, sel1), sel2) for every ascending list / slice selection over
       <= 5 (thorough 6) rows, read through ListView / SliceView.

What is *not* asserted (because nothing promises it): the order of rows with equal index keys after index()
(the model adopts the order the table chose after checking that it is a sorted permutation), whether an
insert after index() keeps the index, and - for '>' / '>=' on a column that contains Missing - whether the
rows without a value are returned: the scan path's guard says they are not, Missing.__gt__ says they are, so
either answer is accepted as long as it is all-or-none, the indexed and the scanned table agree, and no
exception is raised. '<' / '<=' never return them under either reading.
"""
import re, itertools
from hypothesis import strategies as st

from vlib.core import Sub
from vlib.util import Violation, require, use_repo
use_repo()
from coba.results.core import Table, View, Missing

ID = "C17"
LEVEL = "exploration"
DESIGN_REF = "DESIGN.md section 6, C17"
RULE = ("ops: a case is (initial columns, constructor form, initial rows, <= 12 (thorough 24) operations drawn from insert "
        "(list rows / dict rows that omit or add columns / column mapping), index(cols), where (keyword per column in plain, "
        "{op: value} or callable form, optional call-level comparison, 1-3 keywords, or a row predicate) on the table or on an "
        "earlier where() result, groupby(level, select), copy); column domains have 3-5 values so duplicates and boundaries are "
        "dense; arguments include absent values, values outside the range, duplicate and empty 'in' lists. Non-trivial = some "
        "where() keyword took the bisect route (index column, not callable, not 'match') on a table with >= 2 rows that has "
        ">= 2 index columns or duplicate index keys. grid/views: complete enumerations, every case non-trivial except the "
        "empty table. distinct = distinct canonical JSON of the case")
ASSUMPTIONS = [
    "index columns hold mutually comparable values (ints, ints+floats or strings per column) plus Missing through ragged inserts; None occurs only in a non-index column and None is never an argument for an index column",
    "arguments of ordering comparisons are comparable with the column's values; NaN is not generated",
    "insert() and index() are applied to the base table only, and where() results / copies taken before such a mutation are discarded (views address rows by number; copy() shares the data by design, test_copy asserts it)",
    "groupby(level) is asked only of a table whose index is in force (no insert since the last index()) with level < number of index columns, and level 0 not of an empty table",
    "a row predicate and keywords are not passed in the same where() call (keywords are then silently ignored; nothing documents either behaviour)",
    "'match' with a numeric argument only on single-digit int columns, the unique row-id column or string columns, and patterns that cannot match the text 'None' (the implementation picks the match rule from the first row of the column)",
    "after index() rows with equal index keys may be in any order",
    "'>' / '>=' on a column containing Missing: rows without a value may be all kept or all dropped, consistently in the indexed and the scanned table",
]

# ------------------------------------------------------------------------------------------------ domains
class _Miss:
    __slots__ = ()
    def __repr__(self): return "<missing>"
MISS = _Miss()

ALL = ['a', 'b', 'c', 'd', 'e', 'f', 'g']          # canonical order of generated row values; 'r' is the row id
DOM = {'a': [0, 1, 2, 3], 'b': [0, 1, 2], 'c': ['a', 'b', 'ab', 'b1', 'c2'], 'd': [0, 1, 1.5, 2, 2.5],
       'e': [None, 0, 1, 2], 'f': [0, 1, 2], 'g': ['a', 'b', 'b1']}
OUT = {'a': [-1, 4, 7], 'b': [-1, 3], 'c': ['', 'aa', 'zz', 'B'], 'd': [-0.5, 0.5, 3.5, 1.0],
       'e': [-1, 5], 'f': [-1, 3], 'g': ['', 'aa', 'zz'], 'r': [-1]}
INDEXABLE = ['a', 'b', 'c', 'd', 'f', 'g', 'r']
STRCOLS = ('c', 'g')
ORDER = ('<', '<=', '>', '>=')
OPS = ['=', '!=', '<', '<=', '>', '>=', 'in', '!in', 'match']
STR_PATTERNS = ['a', 'b', '^a', 'b$', '1', '[ab]1', '^b', 'c|a', 'zz']
NUM_PATTERNS = ['1', '^2$', '[01]', '3', '^1']
FLT_PATTERNS = ['1', '\\.5', '^2', '5$']

def real(v): return Missing if v is MISS else v
def mod(v): return MISS if v is Missing else v
def ck(v): return ('M',) if v is MISS else (type(v).__name__, v)
def rk(row): return tuple(ck(v) for v in row)
def skey(v): return (1,) if v is MISS else (0, v)

# ------------------------------------------------------------------------------------------------ model semantics
def m_eq(c, a):
    if c is MISS: return a is None          # MissingType.__eq__: equal to None and to nothing else
    return c == a

def m_match(c, arg):
    if c is MISS or c is None: return False
    if isinstance(arg, (int, float)):
        if isinstance(c, (int, float)): return c == arg
        return re.search(f'(\\D|^){arg}(\\D|$)', c) is not None
    return re.search(arg, str(c)) is not None

def m_sat(c, op, arg, lenient):
    if op == '=': return m_eq(c, arg)
    if op == '!=': return not m_eq(c, arg)
    if op == 'in': return any(m_eq(c, a) for a in arg)
    if op == '!in': return not any(m_eq(c, a) for a in arg)
    if op in ORDER:
        if c is MISS: return lenient and op in ('>', '>=')
        if c is None: return False
        if op == '<': return c < arg
        if op == '<=': return c <= arg
        if op == '>': return c > arg
        return c >= arg
    if op == 'match': return m_match(c, arg)
    raise ValueError(op)

def mk_fn(desc, missing):
    """a keyword callable, built from data; `missing` is the object that stands for a missing cell"""
    k = desc[0]
    if k == 'eq':
        v = desc[1]; return lambda c: (v is None) if c is missing else c == v
    if k == 'ne':
        v = desc[1]; return lambda c: (v is not None) if c is missing else c != v
    if k == 'lt':
        v = desc[1]; return lambda c: c is not missing and c is not None and c < v
    if k == 'ge':
        v = desc[1]; return lambda c: c is not missing and c is not None and c >= v
    if k == 'miss':
        return lambda c: c is missing
    if k == 'isin':
        vals = list(desc[1]); return lambda c: c is not missing and c is not None and c in vals
    raise ValueError(desc)

def mk_pred(desc, cols, missing):
    """a row predicate (receives the row as a tuple in column order)"""
    k = desc[0]
    if k == 'const':
        b = bool(desc[1]); return lambda row: b
    if k == 'nmiss':
        n = desc[1]; return lambda row: sum(1 for x in row if x is missing) >= n
    if k == 'cell':
        i = cols.index(desc[1]); fn = mk_fn(desc[2], missing); return lambda row: fn(row[i])
    raise ValueError(desc)

def arg_values(arg):
    return list(arg['vals']) if isinstance(arg, dict) else [arg]

def arg_real(arg):
    if isinstance(arg, dict):
        vals = arg['vals']
        return {'list': list, 'tuple': tuple, 'set': set}[arg['coll']](vals)
    return arg

def kw_op(kw, cmp):
    """the comparison that applies to one keyword: its own {op: value}, else the call-level one, else '=' / 'in' by type"""
    if kw['form'] == 'dict': return kw['op']
    if cmp is not None: return cmp
    return 'in' if isinstance(kw['arg'], dict) else '='

def m_select(rows, q, cols, lenient):
    """row positions the query selects from `rows` (list of dicts) under a row-by-row evaluation; union over keywords"""
    if 'pred' in q:
        p = mk_pred(q['pred'], cols, MISS)
        return [i for i, r in enumerate(rows) if p(tuple(r[c] for c in cols))]
    sel = set()
    for kw in q['kws']:
        col = kw['col']
        if kw['form'] == 'call':
            fn = mk_fn(kw['arg'], MISS)
            sel.update(i for i, r in enumerate(rows) if fn(r[col]))
        else:
            op = kw_op(kw, q.get('cmp'))
            arg = arg_values(kw['arg']) if op in ('in', '!in') else kw['arg']
            sel.update(i for i, r in enumerate(rows) if m_sat(r[col], op, arg, lenient))
    return sorted(sel)

def is_sorted(rows, index):
    keys = [tuple(skey(r[c]) for c in index) for r in rows]
    return all(k0 <= k1 for k0, k1 in zip(keys, keys[1:]))

def m_groups(rows, index, level):
    """consecutive runs of equal index prefix; for sorted rows this is the partition by prefix"""
    out = []
    for r in rows:
        key = tuple(ck(r[c]) for c in index[:level])
        if out and out[-1][0] == key: out[-1][1].append(r)
        else: out.append((key, [r]))
    return out

# ------------------------------------------------------------------------------------------------ real-table helpers
def t_rows(t):
    return [tuple(mod(v) for v in row) for row in t]

def call_where(t, q, cols):
    if 'pred' in q:
        return t.where(mk_pred(q['pred'], cols, Missing))
    kwargs = {}
    for kw in q['kws']:
        if kw['form'] == 'call': kwargs[kw['col']] = mk_fn(kw['arg'], Missing)
        elif kw['form'] == 'dict': kwargs[kw['col']] = {kw['op']: arg_real(kw['arg'])}
        else: kwargs[kw['col']] = arg_real(kw['arg'])
    cmp = q.get('cmp')
    if cmp is None: return t.where(**kwargs)
    if q.get('pos'): return t.where(None, cmp, **kwargs)
    return t.where(comparison=cmp, **kwargs)

def fresh_scan_table(cols, rows):
    """an un-indexed Table holding exactly `rows` in this order: every keyword is evaluated by the scan"""
    t = Table(columns=list(cols))
    if rows: t.insert([[real(r[c]) for c in cols] for r in rows])
    return t

def show_q(q):
    if 'pred' in q: return f"where(<pred {q['pred']}>)"
    parts = []
    for kw in q['kws']:
        if kw['form'] == 'call': parts.append(f"{kw['col']}=<fn {kw['arg']}>")
        elif kw['form'] == 'dict': parts.append(f"{kw['col']}={{{kw['op']!r}: {arg_real(kw['arg'])!r}}}")
        else: parts.append(f"{kw['col']}={arg_real(kw['arg'])!r}")
    c = q.get('cmp')
    return "where(" + (f"comparison={c!r}, " if c else "") + ", ".join(parts) + ")"

# ------------------------------------------------------------------------------------------------ the machine
class MTab:
    __slots__ = ('rows', 'index', 'clean', 'view')
    def __init__(self, rows, index, clean, view):
        self.rows, self.index, self.clean, self.view = rows, tuple(index), clean, view

class Machine:
    def __init__(self, case, with_real=True):
        self.with_real = with_real
        self.cols = list(case['cols'])
        self.labels = set()
        self.nontrivial = False
        self.next_r = 0
        self.trace = []
        rows = [self._mk_row(v, self.cols) for v in case['rows']]
        self.m = [MTab(rows, (), True, False)]
        self.t = []
        if with_real:
            cols, init = self.cols, case['init']
            if init == 'mapping':
                t = Table({c: [r[c] for r in rows] for c in cols})
            elif init == 'dicts' and rows:
                t = Table([dict(r) for r in rows], columns=cols)
            else:
                t = Table(columns=cols)
                if rows: t.insert([[r[c] for c in cols] for r in rows])
            self.t = [t]
            self.trace.append(f"Table[{init}] cols={cols} rows={[tuple(r[c] for c in cols) for r in rows]}")
            self.check_table(0, "after construction")

    # ---- helpers
    def _mk_row(self, vals, keys):
        row = {c: v for c, v in zip(ALL, vals) if c in keys}
        if 'r' in keys:
            row['r'] = self.next_r
        self.next_r += 1
        return row

    def fail(self, msg, **info):
        raise Violation(msg + " | " + ", ".join(f"{k}={v!r}"[:400] for k, v in info.items()) + " | trace: " + " ; ".join(self.trace)[-1500:])

    def check_table(self, i, when):
        t, m = self.t[i], self.m[i]
        got = t_rows(t)
        exp = [tuple(r[c] for c in self.cols) for r in m.rows]
        if tuple(t.columns) != tuple(self.cols):
            self.fail(f"columns differ {when}", got=t.columns, want=self.cols)
        if [rk(r) for r in got] != [rk(r) for r in exp]:
            self.fail(f"table rows differ from the model {when}", got=got, want=exp)
        if len(t) != len(exp):
            self.fail(f"len(table) wrong {when}", got=len(t), want=len(exp))
        for c in self.cols:
            colv = [mod(v) for v in t[c]]
            if [ck(v) for v in colv] != [ck(r[c]) for r in m.rows]:
                self.fail(f"table[{c!r}] differs from the model {when}", got=colv, want=[r[c] for r in m.rows])

    def drop_views(self):
        del self.m[1:]
        del self.t[1:]

    def pad(self, rows):
        for r in rows:
            for c in self.cols:
                r.setdefault(c, MISS)

    # ---- operations
    def step(self, op):
        k = op['op']
        if k == 'ins': self.do_insert(op)
        elif k == 'index': self.do_index(op)
        elif k == 'where': self.do_where(op)
        elif k == 'groupby': self.do_groupby(op)
        elif k == 'copy': self.do_copy(op)
        else: raise ValueError(k)

    def do_insert(self, op):
        base = self.m[0]
        how = op['how']
        vals = [list(v) for v in op['rows']]
        if op.get('cont') and base.index and base.rows and vals:
            last = base.rows[-1]
            if all(last[c] is not MISS for c in base.index):
                for v in vals:
                    for c in base.index:
                        if c != 'r': v[ALL.index(c)] = last[c]
                self.labels.add('insert-continuing-index-order')
        if how == 'rows':
            keysets = [list(self.cols)] * len(vals)
        elif how == 'cols':
            keysets = [list(op['keys']) + ['r']] * len(vals)
        else:
            keysets = [list(k) + ['r'] for k in op['keys']]
            keysets = (keysets + [list(self.cols)] * len(vals))[:len(vals)]
        new_rows = [self._mk_row(v, ks) for v, ks in zip(vals, keysets)]
        new_cols = sorted(set().union(*[set(r) for r in new_rows]) - set(self.cols)) if new_rows else []
        if base.index: self.labels.add('insert-after-index')
        if new_cols: self.labels.add('insert-adds-column')
        if any(set(r) != set(self.cols) | set(new_cols) for r in new_rows): self.labels.add('ragged-insert')
        self.labels.add('insert-' + how)
        if self.with_real:
            t = self.t[0]
            if how == 'rows':
                arg = [[r[c] for c in self.cols] for r in new_rows]
            elif how == 'cols':
                ks = keysets[0] if new_rows else []
                arg = {c: [r[c] for r in new_rows] for c in ks} if new_rows else {}
            else:
                arg = [dict(r) for r in new_rows]
            self.trace.append(f"insert[{how}]({arg!r})")
            out = t.insert(arg)
            if out is not t: self.fail("insert() must return the table")
        self.cols += new_cols
        for r in base.rows:
            for c in new_cols: r[c] = MISS
        self.pad(new_rows)
        base.rows.extend(new_rows)
        if new_rows and base.index: base.clean = False
        self.drop_views()
        if self.with_real: self.check_table(0, "after insert")

    def do_index(self, op):
        base = self.m[0]
        want = tuple(c for c in op['cols'] if c in self.cols)
        if want == base.index and not base.clean: self.labels.add('reindex-same-columns-after-insert')
        self.labels.add(f'index-depth={len(want)}')
        self.drop_views()
        if self.with_real:
            t = self.t[0]
            before = sorted(rk(r) for r in t_rows(t))
            self.trace.append(f"index{tuple(op['cols'])}")
            out = t.index(*op['cols'])
            if out is not t: self.fail("index() must return the table")
            got = t_rows(t)
            if sorted(rk(r) for r in got) != before:
                self.fail("index() added, dropped or altered rows", before=before, after=got)
            rows = [dict(zip(self.cols, r)) for r in got]
            if not is_sorted(rows, want):
                self.fail("rows are not sorted by the index columns after index()", index=want, rows=got)
            if tuple(t.indexes) != want:
                self.fail("Table.indexes wrong after index()", got=t.indexes, want=want)
            if tuple(t.columns) != tuple(self.cols):
                self.fail("index() changed the columns", got=t.columns, want=self.cols)
            base.rows = rows      # ties may be in any order: adopt the table's choice
        else:
            base.rows = sorted(base.rows, key=lambda r: tuple(skey(r[c]) for c in want))
        base.index, base.clean = want, True
        if self.with_real: self.check_table(0, "after index")

    def q_valid(self, q, m):
        if 'pred' in q:
            d = q['pred']
            return d[0] != 'cell' or d[1] in self.cols
        for kw in q['kws']:
            if kw['col'] not in self.cols: return False
            if kw['form'] != 'call' and kw['col'] in m.index and any(v is None for v in arg_values(kw['arg'])): return False
        return len({kw['col'] for kw in q['kws']}) == len(q['kws'])

    def label_where(self, q, m):
        L = self.labels
        if m.view: L.add('where-of-where')
        if not m.rows: L.add('where-on-empty-table')
        if 'pred' in q:
            L.add('where-row-predicate'); return
        if len(q['kws']) > 1: L.add('where-several-keywords')
        if q.get('cmp'): L.add('call-level-comparison' + ('-positional' if q.get('pos') else ''))
        for kw in q['kws']:
            col = kw['col']
            colvals = [r[col] for r in m.rows]
            has_miss = any(v is MISS for v in colvals)
            if kw['form'] == 'call':
                L.add('keyword-callable'); continue
            op = kw_op(kw, q.get('cmp'))
            L.add('op:' + op); L.add('form:' + kw['form'])
            bis = col in m.index and op != 'match'
            L.add('route:bisect' if bis else 'route:scan')
            if bis:
                L.add(f'bisect-at-index-level={m.index.index(col)}')
                if not m.clean: L.add('bisect-route-after-insert')
                if has_miss: L.add('bisect-on-column-with-missing')
                keys = [tuple(ck(r[c]) for c in m.index) for r in m.rows]
                if len(m.rows) >= 2 and (len(m.index) >= 2 or len(set(keys)) < len(keys)):
                    self.nontrivial = True
            if has_miss and op in ORDER: L.add('ordering-on-column-with-missing')
            if has_miss and op == 'match': L.add('match-on-column-with-missing')
            if any(v is None for v in colvals): L.add('column-with-None')
            vals = arg_values(kw['arg'])
            if op in ('in', '!in'):
                if len(vals) != len(set(map(ck, vals))): L.add("duplicate-values-in-'in'-list")
                if not vals: L.add("empty-'in'-list")
                ints = sorted({v for v in vals if type(v) is int})
                if len(ints) >= 2 and len(ints) == len({ck(v) for v in vals}) and ints[-1] - ints[0] == len(ints) - 1:
                    L.add("consecutive-int-'in'-list")
                    between = any(isinstance(c, float) and ints[0] < c < ints[-1] and c != int(c) for c in colvals)
                    if between: L.add("consecutive-int-'in'-list-with-value-in-between" + ('-bisect' if bis else '-scan'))
            if op != 'match' and vals and all(not any(m_eq(c, v) for c in colvals) for v in vals): L.add('argument-absent-from-column')
            if op in ORDER and colvals:
                present = [c for c in colvals if c is not MISS and c is not None]
                if present and (kw['arg'] < min(present) or kw['arg'] > max(present)): L.add('bound-outside-data-range')

    def do_where(self, op):
        i = op['t'] % len(self.m)
        m, q = self.m[i], op['q']
        if q is None:
            if self.with_real:
                self.trace.append(f"t{i}.where()")
                if self.t[i].where() is not self.t[i]: self.fail("where() without arguments must return the table itself")
            return
        if not self.q_valid(q, m): return
        self.label_where(q, m)
        strict = m_select(m.rows, q, self.cols, False)
        chosen = strict
        if self.with_real:
            lenient = m_select(m.rows, q, self.cols, True)
            self.trace.append(f"t{i}.{show_q(q)}")
            res = call_where(self.t[i], q, self.cols)
            got = t_rows(res)
            cand = {'strict': [tuple(m.rows[j][c] for c in self.cols) for j in strict]}
            if lenient != strict: cand['missing-as-largest'] = [tuple(m.rows[j][c] for c in self.cols) for j in lenient]
            which = [k for k, v in cand.items() if [rk(r) for r in v] == [rk(r) for r in got]]
            if not which:
                self.fail(f"{show_q(q)} on table t{i} (index={m.index}) differs from the row-by-row evaluation",
                          table=[tuple(r[c] for c in self.cols) for r in m.rows], got=got, want=cand['strict'],
                          **({'or_want': cand['missing-as-largest']} if len(cand) > 1 else {}))
            chosen = strict if which[0] == 'strict' else lenient
            if len(res) != len(got): self.fail("len(where result) differs from its rows", got=len(res), want=len(got))
            if tuple(res.columns) != tuple(self.cols): self.fail("where() changed the columns", got=res.columns)
            for c in self.cols:
                colv = [mod(v) for v in res[c]]
                if [ck(v) for v in colv] != [ck(r[self.cols.index(c)]) for r in got]:
                    self.fail(f"where result column {c!r} differs from its rows", got=colv, rows=got)
            # bisect vs scan differential: the same rows in a fresh, un-indexed table
            scan = t_rows(call_where(fresh_scan_table(self.cols, m.rows), q, self.cols))
            if [rk(r) for r in scan] != [rk(r) for r in got]:
                self.fail(f"{show_q(q)}: table t{i} (index={m.index}) and an un-indexed table with the same rows disagree",
                          table=[tuple(r[c] for c in self.cols) for r in m.rows], indexed=got, scanned=scan)
            # the queried table itself is unchanged
            self.check_table(i, "after where (source table)")
            self.t.append(res)
        if not chosen: self.labels.add('empty-where-result')
        self.m.append(MTab([m.rows[j] for j in chosen], m.index, m.clean, True))
        if len(self.m) > 5:
            del self.m[1]
            if self.with_real: del self.t[1]

    def do_groupby(self, op):
        i = op['t'] % len(self.m)
        m, level, select = self.m[i], op['level'], op['select']
        if not m.clean or level >= len(m.index): return
        if level == 0 and not m.rows: return
        sel_cols = [] if select in (None, 'count') else ([select] if isinstance(select, str) else list(select))
        if any(c not in self.cols for c in sel_cols): return
        self.labels.add('groupby' + ('-on-view' if m.view else ''))
        self.labels.add(f'groupby-level={level}')
        if not self.with_real: return
        groups = m_groups(m.rows, m.index, level)
        self.trace.append(f"t{i}.groupby({level},{select!r})")
        got = list(self.t[i].groupby(level, select))
        info = dict(index=m.index, level=level, select=select, table=[tuple(r[c] for c in self.cols) for r in m.rows], got=got)
        if len(got) != len(groups): self.fail("groupby: number of groups differs from the partition by index prefix", want=len(groups), **info)
        if len({g[0] for g in groups}) != len(groups): self.fail("model error: rows not sorted", **info)
        for g, (key, rows) in zip(got, groups):
            gkey = g if select is None else g[0]
            if tuple(ck(mod(v)) for v in gkey) != key: self.fail("groupby: group key differs", want=key, **info)
            if select == 'count':
                if g[1] != len(rows): self.fail("groupby: count differs", want=len(rows), **info)
            elif isinstance(select, str):
                if [ck(mod(v)) for v in g[1]] != [ck(r[select]) for r in rows]: self.fail("groupby: selected column differs", **info)
            elif select is not None:
                if len(g[1]) != len(select): self.fail("groupby: wrong number of selected columns", **info)
                for c, vals in zip(select, g[1]):
                    if [ck(mod(v)) for v in vals] != [ck(r[c]) for r in rows]: self.fail("groupby: selected columns differ", **info)

    def do_copy(self, op):
        i = op['t'] % len(self.m)
        m = self.m[i]
        self.labels.add('copy')
        if self.with_real:
            self.trace.append(f"t{i}.copy()")
            c = self.t[i].copy()
            if c is self.t[i]: self.fail("copy() returned the table itself")
            if tuple(c.indexes) != tuple(self.t[i].indexes): self.fail("copy() changed the index", got=c.indexes, want=self.t[i].indexes)
            self.t.append(c)
        self.m.append(MTab(m.rows, m.index, m.clean, m.view))
        if self.with_real: self.check_table(len(self.m) - 1, "after copy")
        if len(self.m) > 5:
            del self.m[1]
            if self.with_real: del self.t[1]

_LAST = [None, None]

def run_ops(case):
    mach = Machine(case, with_real=True)
    for op in case['ops']:
        mach.step(op)
    _LAST[0], _LAST[1] = case, mach

def _model_of(case):
    if _LAST[0] is case: return _LAST[1]
    mach = Machine(case, with_real=False)
    for op in case['ops']:
        mach.step(op)
    return mach

def nontrivial_ops(case): return _model_of(case).nontrivial
def classes_ops(case): return sorted(_model_of(case).labels)

# ------------------------------------------------------------------------------------------------ generators (ops)
# strategy objects are cached: building (and validating) a fresh one per draw dominated the generation time
from functools import lru_cache
@lru_cache(maxsize=None)
def _S(t): return st.sampled_from(t)
def S(seq): return _S(tuple(seq))
@lru_cache(maxsize=None)
def I(lo, hi): return st.integers(lo, hi)
@lru_cache(maxsize=None)
def _LS(t, lo, hi, uniq): return st.lists(st.sampled_from(t), min_size=lo, max_size=hi, unique=uniq)
def LS(seq, lo, hi, uniq=False): return _LS(tuple(seq), lo, hi, uniq)
B = st.booleans()
@lru_cache(maxsize=None)
def LROW(lo, hi): return st.lists(ROW, min_size=lo, max_size=hi)
def _decode_row(k):
    out = []
    for c in ALL:
        k, j = divmod(k, len(DOM[c]))
        out.append(DOM[c][j])
    return out
_NROWS = 1
for _c in ALL: _NROWS *= len(DOM[_c])
ROW = st.integers(0, _NROWS - 1).map(_decode_row)      # one draw per row (values for all of ALL, mixed radix)

def pool_of(col, n):
    dom = list(range(0, n + 2)) if col == 'r' else [v for v in DOM[col] if v is not None]
    return dom + OUT[col]

def draw_scalar(draw, col, sim, allow_none):
    pool = pool_of(col, sim['n'])
    if allow_none and col not in sim['idx'] and draw(I(0, 7)) == 0: return None
    return draw(S(pool))

NUMCOLS = ('a', 'b', 'd', 'e', 'f', 'r')

def draw_coll(draw, col, sim):
    pool = pool_of(col, sim['n']) + ([None] if col not in sim['idx'] else [])
    if col in NUMCOLS and draw(I(0, 2)) == 0:
        # a run of 2-4 consecutive ints around the column's values (floor/ceil of the non-integer values of 'd' such as
        # 1.5 lie inside such runs), possibly with a duplicate, in any order: an implementation that treats the run as one
        # range also selects the values strictly between two listed ints
        lo = draw(I(-1, 2))
        vals = list(range(lo, lo + draw(I(2, 4))))
        if draw(B): vals.append(draw(S(vals)))
        vals = list(draw(st.permutations(vals)))
    else:
        vals = draw(LS(pool, 0, 4))
    kind = draw(S(['list', 'list', 'tuple', 'set']))
    if kind == 'set': vals = list({ck(v): v for v in vals}.values())
    return {'coll': kind, 'vals': vals}

def draw_match_arg(draw, col):
    if col in STRCOLS:
        return draw(S(STR_PATTERNS + [1, 2]))
    if col == 'd':
        return draw(S(FLT_PATTERNS))
    if col == 'r':
        return draw(S(['1', '^1$', '0$', 0, 1, 2, 11]))
    return draw(S(NUM_PATTERNS + [0, 1, 2, 7]))

def draw_arg(draw, col, op, sim):
    if op in ('in', '!in'): return draw_coll(draw, col, sim)
    if op == 'match': return draw_match_arg(draw, col)
    return draw_scalar(draw, col, sim, allow_none=op in ('=', '!='))

def draw_fn(draw, col, sim):
    pool = pool_of(col, sim['n'])
    k = draw(S(['eq', 'ne', 'lt', 'ge', 'miss', 'isin']))
    if k == 'miss': return ['miss']
    if k == 'isin': return ['isin', draw(LS(pool, 0, 3))]
    return [k, draw(S(pool))]

def draw_query(draw, sim):
    cols, idx = sim['cols'], sim['idx']
    r = draw(I(0, 19))
    if r == 0: return None
    if r <= 2:
        k = draw(S(['cell', 'cell', 'nmiss', 'const']))
        if k == 'const': return {'pred': ['const', draw(B)]}
        if k == 'nmiss': return {'pred': ['nmiss', draw(I(0, 2))]}
        col = draw(S(cols))
        return {'pred': ['cell', col, draw_fn(draw, col, sim)]}
    cmp = draw(S([None, None, None] + OPS))
    q = {'cmp': cmp, 'pos': draw(B), 'kws': []}
    nk = min(draw(S([1, 1, 1, 2, 2, 3])), len(cols))
    chosen = []
    for _ in range(nk):
        cand = [c for c in cols if c not in chosen]
        icand = [c for c in idx if c not in chosen]
        col = draw(S(icand)) if icand and draw(I(0, 9)) < 7 else draw(S(cand))
        chosen.append(col)
        form = draw(S(['plain', 'plain', 'dict', 'dict', 'dict', 'call'])) if draw(I(0, 2)) else 'dict'
        if form == 'call':
            q['kws'].append({'col': col, 'form': 'call', 'op': None, 'arg': draw_fn(draw, col, sim)})
        elif form == 'dict':
            op = draw(S(OPS))
            q['kws'].append({'col': col, 'form': 'dict', 'op': op, 'arg': draw_arg(draw, col, op, sim)})
        else:
            op = cmp if cmp is not None else draw(S(['=', 'in']))
            q['kws'].append({'col': col, 'form': 'plain', 'op': None, 'arg': draw_arg(draw, col, op, sim)})
    return q

def draw_op(draw, sim, first=False):
    kind = draw(S(['where'] * 9 + ['ins'] * 3 + ['index'] * 3 + ['groupby'] * 2 + ['copy']))
    if first and draw(I(0, 9)) < 6: kind = 'index'
    cols = sim['cols']
    if kind == 'groupby' and not (sim['idx'] and sim['clean']): kind = 'where'
    if kind == 'ins':
        how = draw(S(['rows', 'dicts', 'dicts', 'cols']))
        rows = draw(LROW(0 if draw(I(0, 9)) == 0 else 1, 4))
        op = {'op': 'ins', 'how': how, 'rows': rows}
        cur = [c for c in cols if c != 'r']
        others = [c for c in ALL if c not in cols]
        def keyset():
            drop = draw(LS(cur, 0, 2, True)) if cur else []
            add = [draw(S(others))] if others and draw(I(0, 3)) == 0 else []
            return [c for c in cur if c not in drop] + add
        if how == 'dicts': op['keys'] = [keyset() for _ in rows]
        elif how == 'cols': op['keys'] = keyset()
        if sim['idx']: op['cont'] = draw(I(0, 2)) == 0
        if rows:
            new = set().union(*op['keys']) if how == 'dicts' else set(op.get('keys', []))
            sim['cols'] = cols + sorted(new - set(cols))
            sim['n'] += len(rows)
            if sim['idx']: sim['clean'] = False
        sim['ntabs'] = 1
        return op
    if kind == 'index':
        if sim['idx'] and draw(I(0, 2)) == 0:
            chosen = list(sim['idx'])
        else:
            cand = [c for c in INDEXABLE if c in cols]
            pool = cand + ([c for c in INDEXABLE if c not in cols] if draw(I(0, 9)) == 0 else [])
            chosen = draw(LS(pool, 1, 3, True))
        sim['idx'] = tuple(c for c in chosen if c in cols)
        sim['clean'] = True
        sim['ntabs'] = 1
        return {'op': 'index', 'cols': chosen}
    t = draw(I(0, max(0, sim['ntabs'] - 1)))
    if t and draw(B): t = sim['ntabs'] - 1     # chains: prefer the latest result
    if kind == 'copy':
        sim['ntabs'] = min(5, sim['ntabs'] + 1)
        return {'op': 'copy', 't': t}
    if kind == 'groupby':
        level = draw(I(0, len(sim['idx']) - 1))
        s = draw(S(['none', 'count', 'col', 'cols']))
        select = None if s == 'none' else 'count' if s == 'count' else draw(S(cols)) if s == 'col' else \
            draw(LS(cols, 1, 2))
        return {'op': 'groupby', 't': t, 'level': level, 'select': select}
    q = draw_query(draw, sim)
    if q is not None: sim['ntabs'] = min(5, sim['ntabs'] + 1)
    return {'op': 'where', 't': t, 'q': q}

@st.composite
def ops_cases(draw, tier):
    maxops = 12 if tier == 'quick' else 24
    k = draw(I(1, 4))
    base = list(draw(st.permutations(['a', 'b', 'c', 'd', 'e'])))[:k]
    pos = draw(I(0, k))
    cols = base[:pos] + ['r'] + base[pos:]
    init = draw(S(['columns', 'columns', 'mapping', 'dicts']))
    rows = draw(LROW(0 if draw(I(0, 9)) == 0 else 2, 7))
    sim = {'cols': list(cols), 'n': len(rows), 'idx': (), 'clean': True, 'ntabs': 1}
    ops = [draw_op(draw, sim, first=(j == 0)) for j in range(draw(I(2, maxops)))]
    return {'cols': cols, 'init': init, 'rows': rows, 'ops': ops}

def view_ops(case):
    def short(op):
        if op['op'] == 'where': return ['where', op['t'], show_q(op['q']) if op['q'] else 'where()']
        if op['op'] == 'ins': return ['ins', op['how'], len(op['rows'])]
        if op['op'] == 'index': return ['index', op['cols']]
        if op['op'] == 'groupby': return ['groupby', op['t'], op['level'], op['select']]
        return [op['op'], op.get('t')]
    return {'cols': case['cols'], 'init': case['init'], 'n_rows': len(case['rows']), 'ops': [short(o) for o in case['ops']]}

# ------------------------------------------------------------------------------------------------ grid (exhaustive)
GA = [0, 1, 2, MISS]
GB = [0, 1]
GCELLS = [(a, b) for a in GA for b in GB if not (a == 2 and b == 1)] + [(1.5, 0)]   # 8 distinct rows, one non-integer value
GINDEX = [['a'], ['a', 'b'], ['b', 'a'], []]
GARGS = {'a': [-1, 0, 1, 1.5, 2, 3], 'b': [-1, 0, 1, 2]}
GLISTS = {'a': [[], [0], [2], [3], [0, 2], [2, 0], [1, 1], [0, 0, 2], [-1, 1, 3], [0, 1, 2], [0, 1], [1, 2], [2, 1, 1], [1.5], [1, 1.5]],
          'b': [[], [0], [1, 1], [1, 0], [2]]}

def grid_cases(tier):
    maxlen = 3 if tier == 'quick' else 5     # 8 cells: 585 tables x 4 index choices (quick), 37449 x 4 (thorough)
    for n in range(0, maxlen + 1):
        for cells in itertools.product(range(len(GCELLS)), repeat=n):
            for ix in range(len(GINDEX)):
                yield {'cells': list(cells), 'index': ix}

def grid_queries():
    for col in ('a', 'b'):
        for op in ('=', '!=', '<', '<=', '>', '>='):
            for v in GARGS[col]:
                yield {'cmp': None, 'kws': [{'col': col, 'form': 'dict', 'op': op, 'arg': v}]}
        for op in ('in', '!in'):
            for vals in GLISTS[col]:
                yield {'cmp': None, 'kws': [{'col': col, 'form': 'dict', 'op': op, 'arg': {'coll': 'list', 'vals': vals}}]}
    yield {'cmp': None, 'kws': [{'col': 'a', 'form': 'dict', 'op': '<', 'arg': 1}, {'col': 'b', 'form': 'plain', 'op': None, 'arg': 1}]}
    yield {'cmp': None, 'kws': [{'col': 'b', 'form': 'dict', 'op': '>=', 'arg': 1}, {'col': 'a', 'form': 'plain', 'op': None, 'arg': {'coll': 'list', 'vals': [0, 0]}}]}
    yield {'cmp': '>', 'pos': True, 'kws': [{'col': 'a', 'form': 'plain', 'op': None, 'arg': 0}, {'col': 'b', 'form': 'plain', 'op': None, 'arg': 0}]}
GQUERIES = list(grid_queries())

def run_grid(case):
    cols = ['a', 'b', 'r']
    rows = []
    for i, ci in enumerate(case['cells']):
        a, b = GCELLS[ci]
        rows.append({'a': a, 'b': b, 'r': i})
    index = GINDEX[case['index']]
    t = Table(columns=cols)
    if rows: t.insert([{k: v for k, v in r.items() if v is not MISS} for r in rows])
    if index: t.index(*index)
    got = t_rows(t)
    require(sorted(map(rk, got)) == sorted(rk(tuple(r[c] for c in cols)) for r in rows), "index() added, dropped or altered rows", rows=rows, got=got)
    mrows = [dict(zip(cols, r)) for r in got]
    require(is_sorted(mrows, index), "rows not sorted by the index columns", index=index, got=got)
    for q in GQUERIES:
        strict = [got[j] for j in m_select(mrows, q, cols, False)]
        lenient = [got[j] for j in m_select(mrows, q, cols, True)]
        res = t_rows(call_where(t, q, cols))
        require(res == strict or res == lenient, f"{show_q(q)} on index={index} differs from the row-by-row evaluation",
                table=got, got=res, want=strict, or_want=lenient if lenient != strict else None)
        scan = t_rows(call_where(fresh_scan_table(cols, mrows), q, cols))
        require(scan == res, f"{show_q(q)}: indexed (index={index}) and un-indexed table disagree", table=got, indexed=res, scanned=scan)
    for level in range(len(index)):
        groups = m_groups(mrows, index, level)
        if level == 0 and not mrows: continue
        gc = list(t.groupby(level, 'count'))
        require([(tuple(ck(mod(v)) for v in k), n) for k, n in gc] == [(k, len(rs)) for k, rs in groups],
                "groupby counts differ from the partition by index prefix", index=index, level=level, table=got, got=gc)
        gr = list(t.groupby(level, 'r'))
        require([list(v) for _, v in gr] == [[r['r'] for r in rs] for _, rs in groups], "groupby column slices differ", index=index, level=level, table=got, got=gr)

def nontrivial_grid(case): return len(case['cells']) >= 2 and case['index'] != 3
def classes_grid(case): return [f"rows={len(case['cells'])}", f"index={'+'.join(GINDEX[case['index']]) or 'none'}"] + \
    (['missing-in-index-column'] if any(GCELLS[c][0] is MISS for c in case['cells']) and case['index'] != 3 else [])

# ------------------------------------------------------------------------------------------------ views (exhaustive)
def selections(n):
    for k in range(0, n + 1):
        for comb in itertools.combinations(range(n), k):
            yield ['list', list(comb)]
    for a in range(n):
        for b in range(a + 1, n + 1):
            yield ['slice', a, b]

def view_cases(tier):
    for n in range(1, 6 if tier == 'quick' else 7):
        for s1 in selections(n):
            k = len(s1[1]) if s1[0] == 'list' else s1[2] - s1[1]
            yield {'n': n, 's1': s1, 's2': None}
            for s2 in selections(k):
                yield {'n': n, 's1': s1, 's2': s2}

def _sel(s): return list(s[1]) if s[0] == 'list' else slice(s[1], s[2])
def _pos(s, base): return [base[i] for i in s[1]] if s[0] == 'list' else base[s[1]:s[2]]

def run_views(case):
    n = case['n']
    data = {'x': [100 + i for i in range(n)], 'y': [chr(97 + i) for i in range(n)]}
    v = View(data, _sel(case['s1']))
    pos = _pos(case['s1'], list(range(n)))
    if case['s2'] is not None:
        v = View(v, _sel(case['s2']))
        pos = _pos(case['s2'], pos)
    info = dict(case=case, select=v._select)
    require(set(v.keys()) == {'x', 'y'} and 'x' in v, "View keys wrong", **info)
    for c in ('x', 'y'):
        want = [data[c][i] for i in pos]
        col = v[c]
        require(len(col) == len(want), "len(view column) wrong", got=len(col), want=len(want), **info)
        require(list(col) == want, "view column differs from the composed selection", got=list(col), want=want, **info)
        for k in range(len(want)):
            require(col[k] == want[k], "view column item differs", k=k, got=col[k], want=want[k], **info)
        for a in range(len(want)):
            for b in range(a + 1, len(want) + 1):
                require(list(col[a:b]) == want[a:b], "view column slice differs", a=a, b=b, got=list(col[a:b]), want=want[a:b], **info)
    t = Table(v, ('x', 'y'))
    require(len(t) == len(pos), "len(Table over a view) wrong", got=len(t), want=len(pos), **info)
    require(list(t) == [(data['x'][i], data['y'][i]) for i in pos], "rows of a Table over a view differ", got=list(t), **info)

def classes_views(case):
    k = lambda s: 'none' if s is None else s[0]
    return [f"{k(case['s1'])}-then-{k(case['s2'])}"]

# ------------------------------------------------------------------------------------------------
SUBCHECKS = [
    Sub(name="ops", run=run_ops, strategy=ops_cases, nontrivial=nontrivial_ops, classes=classes_ops, sample_view=view_ops,
        quick=6000, thorough=400000, quick_shards=5, quick_budget_s=50, thorough_budget_s=800,
        what="operation sequences on a Table vs a list-of-dicts model: rows/columns after every step, where == row-by-row filter "
             "(order, multiplicity, union over keywords), same query on an un-indexed table with the same rows, groupby == partition by index prefix"),
    Sub(name="grid", run=run_grid, enumerate=grid_cases, nontrivial=nontrivial_grid, classes=classes_grid, exhaustive=True,
        quick_shards=2, quick_budget_s=50, thorough_budget_s=800,
        what="every table of <= 3 (thorough 5) rows over 8 cells a in {0,1,1.5,2,Missing} x b in {0,1}, every index choice, every operator x every "
             "argument in and around the range, 'in'/'!in' lists with duplicates/absent/unsorted values, three multi-keyword queries, groupby"),
    Sub(name="views", run=run_views, enumerate=view_cases, nontrivial=lambda c: True, classes=classes_views, exhaustive=True,
        quick_shards=1, quick_budget_s=50, thorough_budget_s=300,
        what="View(View(data, sel1), sel2) for all ascending list / non-empty slice selections over <= 5 (thorough 6) rows: len, iteration, item and slice access"),
]
