#!/bin/bash
# tools/seedcheck.sh <seed-dir containing patch.diff, demo.py> <PROP> [check args...]
# Validates a seeded change in a throw-away clone of /repo: demo passes without / fails with the change, coba's own tests
# fail only where the pristine tree fails, and reports what ./check <PROP> says about the changed tree.
set -u
D="$(cd "$1" && pwd)"; PROP="$2"; shift 2
W="$(mktemp -d /tmp/sc-XXXXXX)"
git clone -q /repo "$W/r" || exit 2
cd "$W/r"
cp "$D/demo.py" demo_seed.py
timeout 300 /venv/bin/python -W ignore demo_seed.py >/dev/null 2>&1; A=$?
git apply "$D/patch.diff" || { echo "PATCH-DOES-NOT-APPLY"; rm -rf "$W"; exit 2; }
timeout 300 /venv/bin/python -W ignore demo_seed.py >/dev/null 2>&1; B=$?
echo "demo: pristine rc=$A changed rc=$B"
if [ "${SKIP_TESTS:-0}" != 1 ]; then
  /venv/bin/python -m pytest -q -p no:cacheprovider --timeout=900 --continue-on-collection-errors --ignore=coba/tests/test_performance.py coba/tests 2>&1 | grep -E "^(FAILED|ERROR)" | sed 's/ - .*//' | sort > "$W/fails.txt"
  echo "tests: failing with change (baseline failures excluded):"; comm -23 "$W/fails.txt" /verif/tools/baseline_fails.txt | sed 's/^/   /'
fi
rm -f demo_seed.py
cd /verif
VERIF_REPO="$W/r" ./check "$PROP" --no-evidence "$@" 2>&1 | grep -E "VIOLATION|^OK|HARNESS|^\[" | cut -c1-300 | head -6
echo "check rc=${PIPESTATUS[0]}"
rm -rf "$W"
