"""C08 Multi-process filtering delivers every output exactly once and never hangs.

Sub-checks
  sim    Multiprocessor.filter with the OS replaced by scheduler-backed doubles (vlib/sim_c08.py): queues, events,
         'processes' (participants running a pickled copy of the worker line), the loader thread, completion callbacks and
         the consuming caller are all participants of one deterministic scheduler; the schedule is a Hypothesis-drawn int
         list. Deadlock = no runnable participant while the caller has not returned (sound, not a timeout).
  pb     small configurations, ALL schedules with <= k preemptions (complete enumeration).
  real   real spawned worker processes through Multiprocessor and CobaMultiprocessor (OS schedules sampled; watchdog).
"""
import os, sys, time, itertools, threading
from collections import Counter
from hypothesis import strategies as st

from vlib.core import Sub
from vlib.util import Violation, Inconclusive, require, use_repo
from vlib.sched import Sched, SchedAbort
use_repo()
from vlib import sim_c08
from vlib.sim_c08 import TagFilter, InjectedError, installed, STATE, KINDS

ID = "C08"
LEVEL = "exploration"
RULE = ("case = (n_processes 1-4, maxtasksperchild 0-4, item count 0-12, subset of items whose filter raises, items with "
        "one-to-many (0-3) generator outputs, consumer drains or abandons after k outputs, schedule = list of ints choosing the "
        "next runnable participant at every queue/event operation and process/thread start and exit); non-trivial = (n>=2 and "
        "more than n items) or a worker retirement (m>0 and items>m) or a raising item or an abandonment or a second call on the same Multiprocessor object (one case in four; its items are numbered from 100); distinct = canonical JSON")
ASSUMPTIONS = [
    "sim/pb: the schedule is owned at the granularity of queue put/get/get_nowait, event set/wait, process/thread start and exit and callback start; statements between two such operations are atomic (bytecode-level races between the parent's callback threads are not explored)",
    "a simulated process gets a pickle round-trip copy of its line, runs it, reports (exception, poisoned) and exit code 0; abrupt death of a worker (non-zero exit code) is not modelled in the simulation - the real driver lets a worker die by os._exit in the middle of an item and demands only that the call terminates without duplicated outputs",
    "real: OS schedules are sampled, not enumerated; a watchdog of 90 s (cases normally take < 2 s) marks an attempt inconclusive; only three consecutive expiries on the same case are reported as a hang",
    "filters raise Exception subclasses that survive pickling; items are never None (the poison pill)",
    "through CobaMultiprocessor the wrapped filter always returns an iterator of outputs (as ProcessTasks does)",
]

def expected_of(case):
    f = TagFilter(case["raising"], {int(k): v for k, v in case["fan"].items()}, 0.0, {int(k): v for k, v in case.get("kinds", {}).items()}, case.get("alias"))
    return f, Counter(f.expected(items_of(case)))

def items_of(case):
    items = list(case["items_list"]) if case.get("items_list") is not None else list(range(case["items"]))
    alias = case.get("alias") or {}
    out = [sim_c08.ALIASES[alias[str(i)]] if str(i) in alias else i for i in items]
    if case.get("stream") == "fresh":
        # a lazily generated stream of freshly built objects that nobody keeps (each may be allocated where the previous one was)
        return ([v] for v in out)
    return out

def calls_of(case):
    """the first call, and - when the case re-uses the Multiprocessor object - the second one (items numbered from 100)"""
    first = {k: v for k, v in case.items() if k not in ("then", "choices", "preemptions")}
    out = [first]
    if case.get("then"):
        out.append(dict(case["then"], n=case["n"], m=case["m"]))
    return out

def combined_filter(case, cls, delay=0.0):
    raising, fan, kinds, alias = set(), {}, {}, {}
    for c in calls_of(case):
        raising |= set(c["raising"]); fan.update({int(k): v for k, v in c["fan"].items()}); kinds.update({int(k): v for k, v in c.get("kinds", {}).items()})
        alias.update(c.get("alias") or {})
    return cls(raising, fan, delay, kinds, alias, case.get("slow_start", 0.0))

def is_injected(case, exc):
    """exc is the error the filter raised for one of the raising items (type and message)"""
    for it in case["raising"]:
        kind = case.get("kinds", {}).get(str(it), "Injected")
        if type(exc) is KINDS[kind] and (getattr(exc, "item", None) == it or f"item {it}" in str(exc)):
            return True
    return False

def judge(case, outs, exc, handled=None, who="caller"):
    f, exp = expected_of(case)
    info = {k: v for k, v in case.items() if k != "choices"}
    odd = [o for o in outs if not (isinstance(o, (tuple, list)) and len(o) >= 3)]
    require(not odd, "an output was delivered that no filter call produced (outputs are (item, k, worker) records)", odd=[repr(o)[:80] for o in odd[:4]], case=info)
    got = Counter((o[0], o[1]) for o in outs)
    dup = {k: v for k, v in got.items() if v > exp.get(k, 0)}
    require(not dup, "outputs duplicated or invented", extra=dup, case=info)
    if "die" in case.get("kinds", {}).values():
        return   # a worker died hard: only termination (checked by the caller) and no duplicates are demanded
    if exc is not None:
        require(is_injected(case, exc),
                f"the call raised {type(exc).__name__}: {exc}, which is not one of the filter's errors", case=info)
    if case["abandon"] is None:
        if case["raising"]:
            require(exc is not None, "a filter error was swallowed: the call returned normally", case=info, outputs=len(outs))
        else:
            require(exc is None, "unexpected exception", exc=repr(exc), case=info)
            require(got == exp, "outputs lost", missing=list((exp - got).items())[:8], case=info)
    m = case["m"]
    if m > 0:
        per = Counter()
        if handled is not None:
            for w, item in handled: per[w] += 1
        else:
            seen = set()
            for o in outs:
                if (o[2], o[0]) not in seen:
                    seen.add((o[2], o[0])); per[o[2]] += 1
        over = {w: c for w, c in per.items() if c > m}
        require(not over, "a worker handled more items than maxtasksperchild", over=over, m=m, case=info)

# ------------------------------------------------------------------------------------------------ simulated driver
def consume(gen, call, outs, res):
    try:
        if call["abandon"] is None:
            for o in gen:
                outs.append(o)
                if call.get("pause") and len(outs) == 1:
                    time.sleep(call["pause"])   # a consumer that stalls while finished workers still hold buffered outputs
        else:
            it = iter(gen)
            for _ in range(call["abandon"]):
                try: outs.append(next(it))
                except StopIteration: break
            try:
                it.close()
            except Exception as e:
                res["close_exc"] = e    # abandoning the output early must terminate cleanly: close() itself raises nothing
    except Exception as e:
        res["exc"] = e
    res["returned"] = True

def drive(case, results):
    """One Multiprocessor object; one call, or two successive calls on the same object (the second must not inherit
    anything from the first: errors, counters, stopped loaders)."""
    from coba.pipes.multiprocessing import Multiprocessor
    mp_ = Multiprocessor(combined_filter(case, RecordingTagFilter), case["n"], case["m"])
    for call in calls_of(case):
        outs, res = [], {}
        results.append((call, outs, res))
        consume(mp_.filter(items_of(call)), call, outs, res)

class RecordingTagFilter(TagFilter):
    def filter(self, item):
        STATE.setdefault("handled", []).append((sim_c08.who(), item[0] if isinstance(item, list) else item))
        return super().filter(item)

def run_with(case, sched):
    results = []
    with installed(sched):
        STATE["handled"] = []
        sched.spawn("caller", lambda: drive(case, results))
        result = sched.run()
        handled = list(STATE["handled"])
    info = {k: v for k, v in case.items() if k != "choices"}
    if result == Sched.STEPS:
        raise Inconclusive("step bound")
    for p in sched.parts:
        if p.exc is not None and not isinstance(p.exc, SchedAbort):
            raise Violation(f"participant {p.name} failed with {type(p.exc).__name__}: {p.exc} | case={info}") from p.exc
    if result == Sched.DEADLOCK:
        raise Violation(f"the call hangs: no participant can run, blocked={sched.blocked} | case={info} trace={sched.trace[-25:]} where={sched.blocked_stacks}")
    require(len(results) == len(calls_of(case)) and all(r[2].get("returned") for r in results), "caller did not return", case=info)
    for i, (call, outs, res) in enumerate(results):
        mine = set(v[0] if isinstance(v, list) else v for v in items_of(call))
        h = None if (case["n"] == 1 and case["m"] == 0) else [(w, it) for w, it in handled if it in mine]
        if "close_exc" in res:
            raise Violation(f"call #{i + 1}: closing the abandoned output raised {type(res['close_exc']).__name__}: {res['close_exc']} (abandoning must terminate cleanly) | case={info}") from res["close_exc"]
        try:
            judge(call, outs, res.get("exc"), h)
        except Violation as e:
            raise Violation(f"call #{i + 1} on the same Multiprocessor object: {e}") from e
    case["_switches"] = len(sched.trace)

def run_sim(case):
    run_with(case, Sched(choices=case.get("choices", ()), max_steps=30000, default_choice=case.get("tail", 0)))

def run_pb(case):
    run_with(case, Sched(max_steps=30000, preemptions={a: b for a, b in case["preemptions"]}))

@st.composite
def sim_cases(draw, tier):
    n = draw(st.sampled_from([1, 2, 2, 3, 3, 4]))
    m = draw(st.sampled_from([0, 0, 1, 2, 3, 4]))
    items = draw(st.one_of(st.integers(0, 12), st.sampled_from([0, 1, n, n + 1, max(1, m), 2 * max(1, m), 2 * n + 1])))
    raising = sorted(draw(st.sets(st.integers(0, max(0, items - 1)), max_size=3))) if items and draw(st.integers(0, 2)) == 0 else []
    fan = {str(i): draw(st.integers(0, 3)) for i in sorted(draw(st.sets(st.integers(0, max(0, items - 1)), max_size=3)))} if items and draw(st.booleans()) else {}
    abandon = draw(st.integers(0, items + 1)) if draw(st.integers(0, 4)) == 0 else None
    kinds = {str(i): draw(st.sampled_from(sorted(KINDS))) for i in raising if draw(st.booleans())}
    then = None
    # a second call on the same object only after a first call that was consumed to its end (normally or through the filter's
    # error): after an ABANDONED call coba leaves workers and completion callbacks behind that still write the object's
    # counters, so re-using that object can hang (observed; coba itself builds a fresh Multiprocessor per call)
    if abandon is None and draw(st.integers(0, 2)) == 0:
        k2 = draw(st.integers(0, 6))
        ids = list(range(100, 100 + k2))
        r2 = sorted(draw(st.sets(st.sampled_from(ids), max_size=2))) if ids and draw(st.integers(0, 2)) == 0 else []
        then = {"items": k2, "items_list": ids, "raising": r2, "fan": {str(i): draw(st.integers(0, 3)) for i in ids[:2]} if ids and draw(st.booleans()) else {},
                "abandon": draw(st.integers(0, k2 + 1)) if draw(st.integers(0, 4)) == 0 else None,
                "kinds": {str(i): draw(st.sampled_from(sorted(KINDS))) for i in r2 if draw(st.booleans())}}
    alias = {}
    if items and draw(st.integers(0, 5)) == 0:
        # some items travel as None / falsy values (the first one most often: the stream is peeked for emptiness)
        alias["0"] = draw(st.sampled_from(sorted(sim_c08.ALIASES)))
        if items > 2 and draw(st.booleans()):
            alias[str(draw(st.integers(1, items - 1)))] = draw(st.sampled_from([a for a in ("None", "empty-str", "empty-tuple") if a != alias["0"]]))
    stream = "fresh" if draw(st.integers(0, 4)) == 0 else "list"
    return {"n": n, "m": m, "items": items, "raising": raising, "fan": fan, "abandon": abandon, "kinds": kinds, "then": then, "alias": alias, "stream": stream,
            "choices": draw(st.lists(st.integers(0, 5), max_size=250 if tier == "quick" else 500)),
            # which runnable participant runs once the drawn choices are used up: 0 = the earliest spawned (caller, loader, ...),
            # larger values let late participants (callbacks, replacement workers) overtake - e.g. the loader finishes last
            "tail": draw(st.sampled_from([0, 0, 1, 2, 3, 5, 7]))}

def nontrivial(case):
    return (bool(case.get("then")) or (case["n"] >= 2 and case["items"] > case["n"]) or (case["m"] > 0 and case["items"] > case["m"])
            or bool(case["raising"]) or case["abandon"] is not None)

def key(case):
    return {k: v for k, v in case.items() if not k.startswith("_")}

def classes(case):
    out = [f"n={case['n']}", f"m={case['m']}"]
    if case["raising"]: out.append("raising")
    for k in set(case.get("kinds", {}).values()): out.append("exc=" + k)
    if case["abandon"] is not None: out.append("abandon")
    if case["m"] > 0 and case["items"] > case["m"]: out.append("retirement")
    if case["items"] < case["n"]: out.append("fewer-items-than-procs")
    if case["m"] and case["items"] % case["m"] == 0 and case["items"]: out.append("items-multiple-of-m")
    if case["fan"]: out.append("fanout")
    if case.get("alias"): out.append("falsy-or-None-items")
    if case.get("stream") == "fresh": out.append("stream-of-fresh-objects")
    if case.get("then"):
        out.append("second-call-on-same-object")
        if case["raising"]: out.append("second-call-after-filter-error")
    return out

def pb_enumerate(tier):
    configs = []
    for n, m, items in [(2, 0, 2), (2, 1, 2), (2, 0, 3), (1, 1, 2), (2, 2, 3)]:
        for raising in ([], [0], [1]):
            for abandon in (None, 1):
                if raising and abandon is not None and (n, m, items) != (2, 0, 3): continue   # error + abandonment together: one configuration
                configs.append({"n": n, "m": m, "items": items, "raising": raising, "fan": {}, "abandon": abandon})
        configs.append({"n": n, "m": m, "items": items, "raising": [1], "fan": {}, "abandon": None, "kinds": {"1": "AssertionError"}})
    if tier == "thorough":
        for n, m, items in [(2, 1, 3), (3, 0, 3), (3, 1, 4), (2, 2, 5), (2, 0, 5)]:
            for raising in ([], [0], [items - 1], [0, 1]):
                configs.append({"n": n, "m": m, "items": items, "raising": raising, "fan": {"1": 2}, "abandon": None})
    for cfg in configs:
        s = Sched(max_steps=30000, preemptions={})
        try:
            run_with(dict(cfg), s)
        except Exception:
            pass
        L = s.steps + 3
        yield dict(cfg, preemptions=[])
        for s1 in range(L):
            for i1 in range(3):
                yield dict(cfg, preemptions=[[s1, i1]])
        if tier == "thorough" and cfg["items"] <= 3 and cfg["n"] <= 2:
            for s1 in range(0, L):
                for s2 in range(s1 + 1, L, 2):
                    for i1, i2 in ((0, 0), (1, 0), (0, 1)):
                        yield dict(cfg, preemptions=[[s1, i1], [s2, i2]])

# ------------------------------------------------------------------------------------------------ real processes
def run_real(case):
    """One expiry of the watchdog is inconclusive; three consecutive expiries on the same case are reported as a hang."""
    for attempt in range(3):
        try:
            return run_real_once(case)
        except Inconclusive:
            if attempt == 2:
                raise Violation(f"the real multi-process call did not return within {case.get('watchdog', 90)} s in three consecutive attempts | case={case}")

def run_exit(case):
    """The scenario runs in an interpreter of its own (vlib/child_c08.py): filter some items on worker processes, take
    `abandon` outputs, close the output, leave main(). The interpreter must END (exit code 0) - workers that are left blocked
    must not keep the program alive."""
    import subprocess
    env = dict(os.environ)
    p = subprocess.Popen([sys.executable, "-W", "ignore", "-m", "vlib.child_c08", str(case["n"]), str(case["m"]), str(case["items"]), str(case["abandon"])],
                         cwd=os.environ.get("VERIF_HOME", "."), env=env, stdout=subprocess.PIPE, stderr=subprocess.PIPE, text=True, start_new_session=True)
    try:
        out, err = p.communicate(timeout=case.get("watchdog", 60))
    except subprocess.TimeoutExpired:
        import signal
        try: os.killpg(p.pid, signal.SIGKILL)
        except Exception: pass
        p.communicate()
        raise Inconclusive("watchdog: the interpreter that abandoned an output did not end")
    require(p.returncode == 0 and "CLOSED-OK" in out, "the program that abandoned an output did not end cleanly", rc=p.returncode, out=out[-300:], err=err[-600:], case=case)

def run_real_once(case):
    if case.get("via") == "exit":
        return run_exit(case)
    import multiprocessing as mp
    from coba.pipes.multiprocessing import Multiprocessor
    from coba.multiprocessing import CobaMultiprocessor
    from coba.context import CobaContext, NullLogger
    f = combined_filter(case, TagFilter, case.get("delay", 0.0))
    results = []
    old_logger = CobaContext.logger
    CobaContext.logger = NullLogger()
    def target():
        if case["via"] == "coba":
            mp_ = CobaMultiprocessor(f, case["n"], case["m"])
        else:
            mp_ = Multiprocessor(f, case["n"], case["m"], read_wait=case["via"] == "read_wait")
        for call in calls_of(case):
            outs, res = [], {}
            results.append((call, outs, res))
            try:
                consume(mp_.filter(items_of(call)), call, outs, res)
            except BaseException as e:
                res["other"] = e; res["returned"] = True
    t = threading.Thread(target=target, daemon=True)
    try:
        t.start()
        t.join(case.get("watchdog", 90))
        if t.is_alive():
            raise Inconclusive(f"watchdog: the real multi-process call did not return within {case.get('watchdog', 90)} s")
    finally:
        CobaContext.logger = old_logger
        for p in mp.active_children():
            try: p.terminate()
            except Exception: pass
    info = dict(case)
    require(len(results) == len(calls_of(case)), "the caller stopped before its last call", case=info)
    for i, (call, outs, res) in enumerate(results):
        if "other" in res:
            raise Violation(f"call #{i + 1} raised {type(res['other']).__name__}: {res['other']} | case={info}") from res["other"]
        if "close_exc" in res:
            raise Violation(f"call #{i + 1}: closing the abandoned output raised {type(res['close_exc']).__name__}: {res['close_exc']} (abandoning must terminate cleanly) | case={info}") from res["close_exc"]
        try:
            judge(call, outs, res.get("exc"), None)
        except Violation as e:
            raise Violation(f"call #{i + 1} on the same Multiprocessor object: {e}") from e

@st.composite
def real_cases(draw, tier):
    c = draw(sim_cases(tier))
    c.pop("choices")
    c["via"] = draw(st.sampled_from(["pipes", "pipes", "coba", "read_wait"]))
    c["delay"] = draw(st.sampled_from([0.0, 0.0, 0.01]))
    if c["via"] == "coba":
        # CobaMultiprocessor's callers (ProcessTasks) return iterators of outputs; a bare value would be flattened by its
        # worker-side `yield from`, so every item gets an explicit generator output here
        c["fan"] = {str(i): c["fan"].get(str(i), 1) for i in range(c["items"])}
        if c.get("then"):
            c["then"]["fan"] = {str(i): c["then"]["fan"].get(str(i), 1) for i in c["then"]["items_list"]}
    if c["via"] == "read_wait" and (c["abandon"] is not None or (c.get("then") and c["then"]["abandon"] is not None)):
        c["via"] = "pipes"
    if c["raising"] and c["via"] == "pipes" and not c.get("then") and not (c["n"] == 1 and c["m"] == 0) and draw(st.integers(0, 3)) == 0:
        # (with one process and no maxtasksperchild the filter runs inside the calling process: there is no worker to kill)
        # a worker process that dies hard in the middle of an item: the call must still terminate
        c["kinds"] = dict(c["kinds"], **{str(c["raising"][0]): "die"})
    return c

def real_fixed(tier):
    """a handful of fixed real-process cases that every run executes (incl. a worker dying hard in the middle of an item)"""
    base = {"fan": {}, "abandon": None, "then": None, "delay": 0.0}
    yield dict(base, n=2, m=0, items=4, raising=[1], kinds={"1": "die"}, via="pipes")
    yield dict(base, n=1, m=1, items=3, raising=[0], kinds={"0": "die"}, via="pipes")
    yield dict(base, n=3, m=2, items=7, raising=[5], kinds={"5": "die"}, via="pipes")
    # filter errors that pickle (they define __reduce__) but cannot be rebuilt from their .args: the caller must still get them
    yield dict(base, n=2, m=0, items=4, raising=[2], kinds={"2": "Positional"}, via="pipes")
    yield dict(base, n=2, m=1, items=3, raising=[1], kinds={"1": "JSONDecodeError"}, via="pipes")
    # one process with a positive maxtasksperchild through CobaMultiprocessor: still no process may handle more than m items
    yield dict(base, n=1, m=1, items=3, raising=[], kinds={}, via="coba", fan={"0": 1, "1": 1, "2": 1})
    yield dict(base, n=1, m=2, items=5, raising=[], kinds={}, via="coba", fan={str(i): 1 for i in range(5)})
    # the first item of the stream is None / falsy (the stream is peeked to see whether it is empty)
    yield dict(base, n=1, m=0, items=3, raising=[], kinds={}, via="coba", fan={str(i): 1 for i in range(3)}, alias={"0": "None"})
    yield dict(base, n=2, m=1, items=4, raising=[], kinds={}, via="coba", fan={str(i): 1 for i in range(4)}, alias={"0": "None", "2": "empty-tuple"})
    yield dict(base, n=2, m=0, items=3, raising=[], kinds={}, via="pipes", alias={"0": "False", "1": "None"})
    # more buffered output (> 64 KiB per worker) than the queue's pipe holds while the consumer stalls for 4 s after the first output:
    # workers that are done must still deliver everything they produced
    yield dict(base, n=2, m=0, items=3, raising=[], kinds={}, via="pipes", fan={"0": 4000, "1": 4000, "2": 1}, pause=4.0, watchdog=45)
    # a lazily generated stream of freshly built items
    yield dict(base, n=2, m=0, items=40, raising=[], kinds={}, via="pipes", stream="fresh")
    yield dict(base, n=2, m=3, items=25, raising=[], kinds={}, via="coba", fan={str(i): 1 for i in range(25)}, stream="fresh")
    # the first worker needs 12 s before it is up (slow imports / a slow __setstate__ / a loaded machine): the call just takes longer
    yield dict(base, n=2, m=0, items=4, raising=[], kinds={}, via="pipes", slow_start=12.0)
    # after an abandoned output the PROGRAM must still be able to end (a separate interpreter runs the scenario and exits)
    yield dict(base, n=2, m=0, items=200, raising=[], kinds={}, via="exit", abandon=1)
    yield dict(base, n=3, m=2, items=100, raising=[], kinds={}, via="exit", abandon=3)
    # the filter's own AttributeError / ImportError must reach the caller as such
    yield dict(base, n=2, m=0, items=4, raising=[1], kinds={"1": "AttributeError"}, via="pipes")
    yield dict(base, n=2, m=1, items=4, raising=[3], kinds={"3": "ImportError"}, via="coba", fan={str(i): 1 for i in range(4)})
    yield dict(base, n=2, m=1, items=5, raising=[2], kinds={"2": "AssertionError"}, via="pipes",
               then={"items": 3, "items_list": [100, 101, 102], "raising": [], "fan": {}, "abandon": None, "kinds": {}})

SUBCHECKS = [
    Sub(name="sim", run=run_sim, strategy=sim_cases, nontrivial=nontrivial, classes=classes, key=key,
        quick=8000, thorough=160000, quick_shards=8, quick_budget_s=50,
        what="Multiprocessor.filter over scheduler-backed queues/events/processes/threads/callbacks with generated schedules; exact output multiset, error propagation, clean abandonment, maxtasksperchild bound, sound deadlock detection"),
    Sub(name="pb", run=run_pb, enumerate=pb_enumerate, nontrivial=lambda c: len(c["preemptions"]) >= 1, exhaustive=True,
        quick_shards=4, quick_budget_s=50, thorough_budget_s=1500,
        what="complete enumeration of all schedules with <= 1 preemption (thorough: <= 2 for the smallest) of small configurations (n<=3, items<=5, raising subsets, abandonment)"),
    Sub(name="real_fixed", run=run_real, enumerate=real_fixed, nontrivial=lambda c: True, exhaustive=False, quick_shards=17, thorough_shards=17,
        quick_budget_s=60, what="seventeen fixed real-process cases run every time (incl. CobaMultiprocessor with one process and a positive maxtasksperchild, streams whose first item is None / falsy, and a consumer that stalls while finished workers hold > 64 KiB of buffered outputs): a worker dying by os._exit mid-item for three (n, m) shapes - the call must terminate without duplicated outputs - and a second call on the same object after a filter error"),
    Sub(name="real", run=run_real, strategy=real_cases, nontrivial=nontrivial, classes=classes, quick=24, thorough=640,
        quick_shards=8, thorough_shards=16, quick_budget_s=60, thorough_budget_s=1200,
        what="real spawned workers via Multiprocessor (incl. read_wait) and CobaMultiprocessor; same oracle; OS schedules sampled"),
]
