"""Module-level, picklable doubles for C07 (result log fidelity).

An environment with generated params and two trivial interactions, a learner with generated params, and an
evaluator that yields a generated list of rows per (environment, learner) pair. Nothing here is random and
nothing is shared between instances: params are handed out as deep copies because the Safe* wrappers of coba
add their default key (env_type / family / eval_type) to the dictionary they are given.
"""
from copy import deepcopy

class C07Env:
    def __init__(self, idx, params):
        self.idx = idx
        self._params = params

    @property
    def params(self):
        return deepcopy(self._params)

    def read(self):
        yield {"context": self.idx, "actions": [0, 1], "rewards": [0, 1]}
        yield {"context": self.idx + 1, "actions": [0, 1], "rewards": [1, 0]}

class C07Learner:
    def __init__(self, idx, params):
        self.idx = idx
        self._params = params

    @property
    def params(self):
        return deepcopy(self._params)

    def predict(self, context, actions):
        return actions[0]

    def learn(self, context, action, reward, probability, **kwargs):
        pass

# An aborted run (props/c07.py, sub-check 'aborted'): the ABORT["at"]-th evaluate() call of the run raises KeyboardInterrupt after
# yielding ABORT["rows"] rows (Experiment.run handles Ctrl-C by logging it and returning what was recorded). "done" lists the
# (environment, learner, evaluator) index triples whose evaluation ran to its end before that, "hit" the aborted one.
ABORT = {"at": None, "rows": 0, "n": 0, "done": [], "hit": None}

def arm_abort(at=None, rows=0):
    ABORT.update(at=at, rows=rows, n=0, done=[], hit=None)

class C07Evaluator:
    """evaluate() yields the rows generated for the (environment, learner) pair it is given."""

    def __init__(self, idx, params, rows_by_pair, stamp=None):
        self.idx = idx
        self._params = params
        self._rows = rows_by_pair       # {(env idx, learner idx): [row, ...]}
        self._stamp = stamp             # when given every yielded row also says in which run it was produced
        self.calls = []

    @property
    def params(self):
        return deepcopy(self._params)

    def evaluate(self, environment, learner):
        n = sum(1 for _ in environment.read())   # touch the environment like a real evaluator would
        assert n == 2
        self.calls.append((environment.idx, learner.idx))
        k = ABORT["n"]; ABORT["n"] += 1
        mine = ABORT["at"] is not None and ABORT["at"] == k
        for j, row in enumerate(self._rows[(environment.idx, learner.idx)]):
            if mine and j >= ABORT["rows"]: break
            row = deepcopy(row)
            if self._stamp is not None: row["run"] = self._stamp
            yield row
        if mine:
            ABORT["hit"] = (environment.idx, learner.idx, self.idx)
            raise KeyboardInterrupt()
        ABORT["done"].append((environment.idx, learner.idx, self.idx))
