"""Picklable components for the real-process part of C19 (imported inside spawned workers)."""
import os, time as _time

class FastTime:
    """Stands in for the `time` module inside coba.context.cachers in worker processes: only shortens the 1 s retry pause."""
    def sleep(self, secs):
        _time.sleep(0.004)
    def time(self):
        return _time.time()

class CacheUser:
    def __init__(self, logpath, delay, n_lines=5, rendezvous=0, nest=0):
        self.logpath, self.delay, self.n_lines, self.rendezvous = logpath, delay, n_lines, rendezvous
        self.nest = nest      # how many further get_set calls on the same key are nested inside the first one
        self._met = False

    def _meet(self):
        """First call in a worker: wait (bounded) until `rendezvous` workers are up, so that they really run concurrently."""
        self._met = True
        path = self.logpath + ".started"
        fd = os.open(path, os.O_WRONLY | os.O_APPEND | os.O_CREAT)
        try: os.write(fd, f"{os.getpid()}\n".encode())
        finally: os.close(fd)
        end = _time.time() + 15
        while _time.time() < end:
            with open(path) as f:
                if len(f.read().split()) >= self.rendezvous: return
            _time.sleep(0.002)

    def filter(self, item):
        from coba.context import CobaContext
        import coba.context.cachers as cm
        cm.time = FastTime()
        if self.rendezvous and not self._met: self._meet()
        key = item[0]
        def getter():
            fd = os.open(self.logpath, os.O_WRONLY | os.O_APPEND | os.O_CREAT)
            try:
                os.write(fd, f"{key} {os.getpid()}\n".encode())
            finally:
                os.close(fd)
            for i in range(self.n_lines):
                _time.sleep(self.delay)
                yield f"{key}-line{i}"
        def read(depth):
            with CobaContext.cacher.get_set(key, getter) as f:
                if depth > 0:
                    return read(depth - 1)
                return [l.rstrip("\n") for l in f]
        lines = read(self.nest)
        yield (tuple(item), lines, os.getpid())

from contextlib import nullcontext
from coba.context.cachers import Cacher

class FileCacher(Cacher):
    """A user-defined cacher (not a DiskCacher) whose storage is shared between processes: plain files written line by
    line, i.e. a reader that is let in during a write sees a strict prefix. Only the ConcurrentCacher that
    CobaMultiprocessor wraps around CobaContext.cacher makes it safe."""
    def __init__(self, directory, delay=0.01):
        self.directory, self.delay = directory, delay
    def _path(self, key):
        return os.path.join(self.directory, f"{key}.txt")
    def __contains__(self, key):
        return os.path.exists(self._path(key))
    def rmv(self, key):
        if key in self: os.unlink(self._path(key))
    def get_set(self, key, getter):
        if key not in self:
            os.makedirs(self.directory, exist_ok=True)
            lines = getter() if callable(getter) else getter
            try:
                with open(self._path(key), "w") as f:
                    for line in lines:
                        f.write(line.rstrip("\r\n") + "\n"); f.flush()
                        _time.sleep(self.delay)
            except BaseException:
                self.rmv(key)
                raise
        with open(self._path(key)) as f:
            return nullcontext(f.read().splitlines())
