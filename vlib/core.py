"""Sub-check description and the in-process driver that runs one sub-check shard.

A property module (props/cNN.py) exposes
    ID, LEVEL, RULE, ASSUMPTIONS, SUBCHECKS (list of Sub), optional DESIGN_REF
Each Sub is one generated check: a Hypothesis strategy (or a finite enumeration) producing *cases*
(plain data, JSON-serialisable through vlib.util.to_jsonable), a `run(case)` that raises Violation
when the oracle is contradicted, a non-triviality rule and an optional classifier that maps a failing
case onto an entry of known_findings.json.
"""
import os, sys, time, json, traceback, itertools
from dataclasses import dataclass, field
from typing import Callable, Optional, Any, List

from .util import (Violation, Inconclusive, hash_case, to_jsonable, from_jsonable, in_repo_frames,
                   innermost_repo_frame, use_repo, VERIF_HOME)

@dataclass
class Sub:
    name: str
    run: Callable[[Any], None]
    strategy: Optional[Callable[[str], Any]] = None      # tier -> hypothesis strategy
    enumerate: Optional[Callable[[str], Any]] = None     # tier -> finite iterable of cases (exhaustive)
    nontrivial: Callable[[Any], bool] = lambda case: True
    classes: Optional[Callable[[Any], List[str]]] = None  # labels for the distribution report
    classify: Optional[Callable[[Any, BaseException], Optional[str]]] = None  # -> known-finding id
    quick: int = 500             # examples in the quick tier (all shards together)
    thorough: int = 20000        # examples in the thorough tier (all shards together)
    quick_shards: int = 1
    thorough_shards: int = 16
    quick_budget_s: float = 60
    thorough_budget_s: float = 900
    exhaustive: bool = False     # enumeration covers its finite space completely
    what: str = ""               # one line: domain and oracle
    key: Optional[Callable[[Any], Any]] = None  # projection used for distinctness (default: whole case)
    sample_view: Optional[Callable[[Any], Any]] = None  # how a case is shown in evidence samples

def load_known(prop_id):
    path = os.environ.get("VERIF_KNOWN_FILE") or os.path.join(VERIF_HOME, "known_findings.json")
    if not os.path.exists(path):
        return {}
    with open(path) as f:
        data = json.load(f)
    out = {}
    for e in data.get("findings", []):
        if e.get("property") == prop_id and e.get("status", "open") == "open":
            out[e["id"]] = e
    return out

def load_prop(prop_id):
    use_repo()
    import importlib
    return importlib.import_module("props." + prop_id.lower())

def find_sub(mod, name):
    for s in mod.SUBCHECKS:
        if s.name == name:
            return s
    raise KeyError(f"{mod.ID} has no sub-check {name!r}")

class BudgetStop(BaseException):
    """Raised inside a Hypothesis test to end generation when the soft wall-clock budget of a shard is used up
    (not an Exception, so Hypothesis neither records it as a failure nor tries to shrink it)."""

class Stats:
    def __init__(self):
        self.evals = 0
        self.skipped = 0
        self.invalid = 0
        self.nt = set()
        self.classes = {}
        self.samples = []
        self.nt_samples = []
        self.known = {}
        self.known_examples = {}
        self.failure = None
        self.inconclusive = 0

def describe_failure(case, exc, tb):
    kind = "oracle" if isinstance(exc, (Violation, AssertionError)) else "exception"
    return {
        "case": to_jsonable(case),
        "kind": kind,
        "type": type(exc).__name__,
        "message": str(exc)[:2000],
        "repo_frame": innermost_repo_frame(tb),
        "traceback": "".join(traceback.format_exception(type(exc), exc, tb))[-6000:],
    }

def execute_case(sub, case, known, stats, count=True):
    """Run one case. Returns None if it passed (or hit an open known finding), else re-raises."""
    from hypothesis.errors import UnsatisfiedAssumption
    view = sub.sample_view or (lambda c: c)
    try:
        sub.run(case)
    except UnsatisfiedAssumption:
        stats.invalid += 1
        raise
    except Inconclusive:
        stats.inconclusive += 1
        return
    except BaseException as e:
        if isinstance(e, (KeyboardInterrupt, SystemExit, MemoryError)) or type(e).__name__ == "ReplayTimeout":
            raise
        tb = e.__traceback__
        fid = None
        if sub.classify is not None:
            try:
                fid = sub.classify(case, e)
            except Exception:
                fid = None
        if fid is not None and fid in known:
            stats.known[fid] = stats.known.get(fid, 0) + 1
            if fid not in stats.known_examples:
                stats.known_examples[fid] = {"case": to_jsonable(view(case)), "message": str(e)[:500]}
            if count:
                stats.evals += 1
            return
        is_violation = isinstance(e, (Violation, AssertionError)) or in_repo_frames(tb)
        stats.failure = describe_failure(case, e, tb)
        stats.failure["harness_error"] = not is_violation
        stats.failure["classified_as"] = fid
        raise
    if count:
        stats.evals += 1
        try:
            nt = bool(sub.nontrivial(case))
        except Exception:
            nt = False
        if sub.classes is not None:
            try:
                for c in sub.classes(case):
                    stats.classes[c] = stats.classes.get(c, 0) + 1
            except Exception:
                pass
        if nt:
            h = hash_case(sub.key(case) if sub.key else case)
            if h not in stats.nt:
                stats.nt.add(h)
                if len(stats.nt_samples) < 3:
                    stats.nt_samples.append(to_jsonable(view(case)))
        elif len(stats.samples) < 1:
            stats.samples.append(to_jsonable(view(case)))

def run_shard(prop_id, sub_name, tier, seed, n, shard, nshards, budget_s, shrink=True):
    """Run one shard of one sub-check in this process and return a JSON-able result."""
    mod = load_prop(prop_id)
    sub = find_sub(mod, sub_name)
    known = load_known(prop_id)
    stats = Stats()
    t0 = time.time()
    status = "ok"
    budget_hit = False

    if sub.enumerate is not None:
        it = sub.enumerate(tier)
        for i, case in enumerate(it):
            if i % nshards != shard:
                continue
            if time.time() - t0 > budget_s:
                budget_hit = True
                break
            try:
                execute_case(sub, case, known, stats)
            except BaseException as e:
                if isinstance(e, (KeyboardInterrupt, SystemExit, MemoryError)):
                    raise
                if stats.failure is None:
                    stats.failure = describe_failure(case, e, e.__traceback__)
                    stats.failure["harness_error"] = True
                status = "failed"
                break
    else:
        import hypothesis
        from hypothesis import given, settings, HealthCheck, Phase, Verbosity
        phases = [Phase.generate, Phase.shrink] if shrink else [Phase.generate]
        strat = sub.strategy(tier)

        def body(case):
            nonlocal budget_hit
            if time.time() - t0 > budget_s and stats.failure is None:
                budget_hit = True
                raise BudgetStop()
            execute_case(sub, case, known, stats)

        test = given(strat)(body)
        test = settings(max_examples=max(1, n), database=None, deadline=None, derandomize=False,
                        report_multiple_bugs=False, suppress_health_check=list(HealthCheck),
                        phases=phases, verbosity=Verbosity.quiet, print_blob=False)(test)
        test = hypothesis.seed(seed)(test)
        try:
            test()
        except BudgetStop:
            pass
        except BaseException as e:
            if isinstance(e, (KeyboardInterrupt, SystemExit, MemoryError)):
                raise
            status = "failed"
            if stats.failure is None:
                # failure outside execute_case: generator error, hypothesis internal error, flaky...
                stats.failure = {"case": None, "kind": "harness", "type": type(e).__name__, "message": str(e)[:2000],
                                 "traceback": "".join(traceback.format_exception(type(e), e, e.__traceback__))[-6000:],
                                 "harness_error": True, "repo_frame": None, "classified_as": None}
            elif type(e).__name__ in ("Flaky", "FlakyFailure", "FlakyStrategyDefinition"):
                stats.failure["flaky"] = True

    return {
        "prop": prop_id, "sub": sub_name, "tier": tier, "seed": seed, "shard": shard, "nshards": nshards,
        "status": status, "evals": stats.evals, "skipped": stats.skipped, "invalid": stats.invalid,
        "nt": sorted(stats.nt), "classes": stats.classes, "samples": stats.nt_samples + stats.samples,
        "known": stats.known, "known_examples": stats.known_examples, "failure": stats.failure,
        "budget_hit": budget_hit, "inconclusive": stats.inconclusive, "wall_s": round(time.time() - t0, 3),
        "exhaustive": bool(sub.exhaustive and sub.enumerate is not None and not budget_hit and status == "ok"),
    }

def replay_case(prop_id, sub_name, case):
    """Run a saved case directly (no Hypothesis). Returns (ok, failure-dict-or-None, known-id-or-None)."""
    mod = load_prop(prop_id)
    sub = find_sub(mod, sub_name)
    known = load_known(prop_id)
    stats = Stats()
    try:
        execute_case(sub, case, known, stats, count=False)
    except BaseException as e:
        if isinstance(e, (KeyboardInterrupt, SystemExit, MemoryError)) or type(e).__name__ == "ReplayTimeout":
            raise
        if stats.failure is None:
            stats.failure = describe_failure(case, e, e.__traceback__)
            stats.failure["harness_error"] = True
        return False, stats.failure, None
    if stats.known:
        return True, None, next(iter(stats.known))
    return True, None, None
