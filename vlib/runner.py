"""./check front end: tiers, seeds, sharding over worker processes, replay files, known findings, evidence."""
import os, sys, json, time, glob, math, argparse, subprocess, tempfile, shutil

from .util import VERIF_HOME, REPO, to_jsonable, from_jsonable, hash_case, use_repo
from . import core

def json_safe(o):
    """Evidence files are strict JSON: non-finite floats inside sampled cases are written as text ('nan', 'inf', '-inf')."""
    if isinstance(o, float):
        return o if math.isfinite(o) else repr(o)
    if isinstance(o, dict):
        return {str(k): json_safe(v) for k, v in o.items()}
    if isinstance(o, (list, tuple)):
        return [json_safe(v) for v in o]
    return o

def eprint(*a):
    print(*a, file=sys.stderr, flush=True)

def write_failure_file(prop_id, sub, seed, tier, failure):
    d = os.path.join(os.environ.get("VERIF_FAILDIR") or os.path.join(VERIF_HOME, "failures"), prop_id)
    os.makedirs(d, exist_ok=True)
    h = hash_case(failure.get("case"))
    path = os.path.join(d, f"{sub}-seed{seed}-{h}.json")
    with open(path, "w") as f:
        json.dump({"property": prop_id, "sub": sub, "seed": seed, "tier": tier, "case": failure.get("case"),
                   "kind": failure.get("kind"), "type": failure.get("type"), "message": failure.get("message"),
                   "repo_frame": failure.get("repo_frame"), "traceback": failure.get("traceback")}, f, indent=1, allow_nan=True)
    return os.path.relpath(path, VERIF_HOME)

class ReplayTimeout(Exception):
    pass

REPLAY_LIMIT_S = int(os.environ.get("VERIF_REPLAY_LIMIT_S", "300"))

def with_time_limit(fn, *a):
    """Saved cases normally run in milliseconds; a replay that does not return within REPLAY_LIMIT_S is reported as a
    harness error (inconclusive), it must not hang the check. SIGALRM interrupts pure-Python loops in the main thread."""
    import signal
    def on_alarm(signum, frame):
        raise ReplayTimeout(f"replayed case did not return within {REPLAY_LIMIT_S} s")
    old = signal.signal(signal.SIGALRM, on_alarm)
    signal.alarm(REPLAY_LIMIT_S)
    try:
        return fn(*a)
    finally:
        signal.alarm(0)
        signal.signal(signal.SIGALRM, old)

def do_replay(prop_id, path):
    with open(path) as f:
        rec = json.load(f)
    case = from_jsonable(rec["case"])
    try:
        ok, failure, known = with_time_limit(core.replay_case, prop_id, rec["sub"], case)
    except ReplayTimeout as e:
        return rec, False, {"harness_error": True, "message": str(e), "traceback": ""}, None
    return rec, ok, failure, known

def spawn_jobs(jobs, max_par):
    """jobs: list of dict args for vlib.worker. Returns list of results (dicts)."""
    tmpd = tempfile.mkdtemp(prefix="verif-run-")
    results = []
    try:
        pending = list(enumerate(jobs))
        running = []
        env = dict(os.environ)
        while pending or running:
            while pending and len(running) < max_par:
                i, a = pending.pop(0)
                a = dict(a, out=os.path.join(tmpd, f"r{i}.json"))
                logf = open(os.path.join(tmpd, f"r{i}.log"), "wb")
                p = subprocess.Popen([sys.executable, "-W", "ignore", "-m", "vlib.worker", json.dumps(a)],
                                     cwd=VERIF_HOME, env=env, stdout=logf, stderr=subprocess.STDOUT)
                running.append((p, a, time.time(), logf))
            time.sleep(0.05)
            still = []
            for p, a, t0, logf in running:
                rc = p.poll()
                hard = a["budget_s"] * 4 + 180
                if rc is None and time.time() - t0 > hard:
                    p.kill(); p.wait(); rc = -9
                    logf.close()
                    results.append({"prop": a["prop"], "sub": a["sub"], "status": "timeout", "evals": 0, "nt": [],
                                    "classes": {}, "samples": [], "known": {}, "known_examples": {}, "skipped": 0,
                                    "invalid": 0, "budget_hit": True, "inconclusive": 1, "wall_s": hard, "exhaustive": False,
                                    "shard": a["shard"], "seed": a["seed"], "failure": None})
                    continue
                if rc is None:
                    still.append((p, a, t0, logf)); continue
                logf.close()
                if os.path.exists(a["out"]):
                    with open(a["out"]) as f:
                        results.append(json.load(f))
                else:
                    with open(logf.name, "rb") as f:
                        tail = f.read()[-4000:].decode("utf-8", "replace")
                    results.append({"prop": a["prop"], "sub": a["sub"], "status": "crashed", "evals": 0, "nt": [],
                                    "classes": {}, "samples": [], "known": {}, "known_examples": {}, "skipped": 0,
                                    "invalid": 0, "budget_hit": False, "inconclusive": 0, "wall_s": 0.0, "exhaustive": False,
                                    "shard": a["shard"], "seed": a["seed"],
                                    "failure": {"case": None, "kind": "harness", "type": "WorkerCrash", "harness_error": True,
                                                "message": f"worker exited rc={rc} without a result", "traceback": tail,
                                                "repo_frame": None, "classified_as": None}})
            running = still
    finally:
        shutil.rmtree(tmpd, ignore_errors=True)
    return results

def main(argv=None):
    ap = argparse.ArgumentParser()
    ap.add_argument("prop")
    ap.add_argument("--tier", default=os.environ.get("VERIF_TIER") or "quick", choices=["quick", "thorough"])
    ap.add_argument("--replay")
    ap.add_argument("--sub", action="append")
    ap.add_argument("--n", type=int)
    ap.add_argument("--jobs", type=int, default=int(os.environ.get("VERIF_JOBS", "16")))
    ap.add_argument("--no-evidence", action="store_true")
    ap.add_argument("--budget", type=float)
    args = ap.parse_args(argv)
    prop_id = args.prop.upper()
    try:
        seed = int(os.environ.get("VERIF_SEED", "1") or "1")
    except ValueError:
        seed = 1
    t0 = time.time()

    try:
        mod = core.load_prop(prop_id)
    except Exception as e:
        import traceback; traceback.print_exc()
        eprint(f"HARNESS-ERROR property={prop_id}: cannot load the property module or the tree under test: {e}")
        return 2

    # ---------------------------------------------------------------- single replay
    if args.replay:
        path = args.replay if os.path.isabs(args.replay) else os.path.join(VERIF_HOME, args.replay)
        rec, ok, failure, known = do_replay(prop_id, path)
        if ok:
            print(f"REPLAY-OK property={prop_id} replay={args.replay}" + (f" (matches open known finding {known})" if known else ""))
            return 0
        if failure.get("harness_error"):
            eprint(failure.get("traceback", ""))
            eprint(f"HARNESS-ERROR property={prop_id} while replaying {args.replay}: {failure.get('message')}")
            return 2
        print(failure.get("message", ""))
        print(f"VIOLATION property={prop_id} replay={args.replay}")
        return 1

    known = core.load_known(prop_id)
    violations = []      # (sub, replay path, message)
    harness_errors = []
    known_lines = []

    # ---------------------------------------------------------------- listed findings: confirm and report
    known_status = {}
    for fid, entry in known.items():
        rp = entry.get("replay")
        state = "listed"
        if rp:
            try:
                case = from_jsonable(rp["case"])
                ok, failure, k = with_time_limit(core.replay_case, prop_id, rp["sub"], case)
                if ok and k == fid:
                    state = "reproduced"
                elif ok:
                    state = "no-longer-reproduces"
                else:
                    state = "reproduces-differently"
                    if failure.get("harness_error"):
                        harness_errors.append((rp["sub"], f"known finding {fid} replay: {failure.get('message')}", failure.get("traceback")))
                    else:
                        path = write_failure_file(prop_id, rp["sub"], seed, args.tier, failure)
                        violations.append((rp["sub"], path, f"input of known finding {fid} now fails differently: {failure.get('message')}"))
            except Exception as e:
                state = "error"
                harness_errors.append(("known", f"known finding {fid}: {e}", ""))
        known_status[fid] = state
        if state in ("listed", "reproduced"):
            print(f"KNOWN-FINDING: property={prop_id} {fid}: {entry.get('what','')}")
        elif state == "no-longer-reproduces":
            print(f"NOTE: property={prop_id} listed finding {fid} no longer reproduces on this tree")

    # ---------------------------------------------------------------- committed replay tier
    replays_run = 0
    for path in sorted(glob.glob(os.path.join(VERIF_HOME, "replays", prop_id, "*.json"))):
        rel = os.path.relpath(path, VERIF_HOME)
        try:
            rec, ok, failure, k = do_replay(prop_id, path)
        except Exception as e:
            harness_errors.append(("replay", f"{rel}: {e}", ""))
            continue
        replays_run += 1
        if not ok:
            if failure.get("harness_error"):
                harness_errors.append((rec.get("sub"), f"{rel}: {failure.get('message')}", failure.get("traceback")))
            else:
                violations.append((rec.get("sub"), rel, failure.get("message")))

    # ---------------------------------------------------------------- generated search
    subs = [s for s in mod.SUBCHECKS if not args.sub or s.name in args.sub]
    jobs = []
    for si, s in enumerate(mod.SUBCHECKS):
        if s not in subs:
            continue
        total = args.n if args.n else (s.quick if args.tier == "quick" else s.thorough)
        nsh = s.quick_shards if args.tier == "quick" else s.thorough_shards
        nsh = max(1, min(nsh, args.jobs))
        budget = args.budget or (s.quick_budget_s if args.tier == "quick" else s.thorough_budget_s)
        per = max(1, math.ceil(total / nsh))
        for sh in range(nsh):
            jobs.append({"prop": prop_id, "sub": s.name, "tier": args.tier, "seed": seed * 100003 + si * 1009 + sh,
                         "n": per, "shard": sh, "nshards": nsh, "budget_s": budget, "shrink": True})
    results = spawn_jobs(jobs, args.jobs) if jobs else []

    per_sub = {}
    all_nt = set()
    samples = []
    total_evals = 0
    excluded_known = {}
    inconclusive = 0
    for r in results:
        d = per_sub.setdefault(r["sub"], {"evaluations": 0, "nt": set(), "classes": {}, "known": {}, "budget_hit": False,
                                          "wall_s": 0.0, "shards": 0, "skipped": 0, "invalid": 0, "exhaustive": True,
                                          "status": "ok", "samples": []})
        d["evaluations"] += r["evals"]; d["nt"].update(r["nt"]); d["shards"] += 1
        d["skipped"] += r.get("skipped", 0); d["invalid"] += r.get("invalid", 0)
        d["wall_s"] = max(d["wall_s"], r.get("wall_s", 0.0))
        d["budget_hit"] = d["budget_hit"] or r.get("budget_hit", False)
        d["exhaustive"] = d["exhaustive"] and r.get("exhaustive", False)
        for k, v in r.get("classes", {}).items():
            d["classes"][k] = d["classes"].get(k, 0) + v
        for k, v in r.get("known", {}).items():
            d["known"][k] = d["known"].get(k, 0) + v
            excluded_known[k] = excluded_known.get(k, 0) + v
        inconclusive += r.get("inconclusive", 0) + (1 if r.get("status") == "timeout" else 0)
        if len(d["samples"]) < 2:
            d["samples"].extend(r.get("samples", [])[:2 - len(d["samples"])])
        total_evals += r["evals"]
        if r["status"] in ("failed", "crashed"):
            d["status"] = r["status"]
            f = r.get("failure") or {}
            if f.get("harness_error") or f.get("case") is None:
                harness_errors.append((r["sub"], f.get("message"), f.get("traceback")))
            else:
                path = write_failure_file(prop_id, r["sub"], r["seed"], args.tier, f)
                violations.append((r["sub"], path, f.get("message")))
        elif r["status"] == "timeout":
            d["status"] = "timeout"
            harness_errors.append((r["sub"], f"shard {r['shard']} exceeded its hard time limit (inconclusive)", ""))
    for name, d in per_sub.items():
        all_nt.update(name + ":" + h for h in d["nt"])
        for s_ in d["samples"][:2]:
            if len(samples) < 8:
                samples.append({"sub": name, "case": s_})

    wall = time.time() - t0
    # ---------------------------------------------------------------- evidence
    if not args.no_evidence and not args.sub:
        sub_report = {}
        for s in mod.SUBCHECKS:
            d = per_sub.get(s.name)
            if d is None:
                continue
            sub_report[s.name] = {"what": s.what, "evaluations": d["evaluations"], "distinct_nontrivial": len(d["nt"]),
                                  "classes": dict(sorted(d["classes"].items())), "excluded_known": d["known"],
                                  "budget_hit": d["budget_hit"], "skipped_after_budget": d["skipped"],
                                  "rejected_by_assume": d["invalid"], "exhaustive": bool(d["exhaustive"] and s.exhaustive),
                                  "shards": d["shards"], "wall_s": d["wall_s"], "status": d["status"]}
        ev = {
            "property_id": prop_id, "tier": args.tier, "seed": seed, "level": mod.LEVEL,
            "coverage": {
                "evaluations": total_evals + replays_run,
                "distinct_nontrivial": len(all_nt),
                "rule": mod.RULE,
                "samples": samples if samples else [{"note": "no case executed"}],
                "exhaustive": bool(sub_report) and all(v["exhaustive"] for v in sub_report.values()),
                "subchecks": sub_report,
                "replays_run": replays_run,
                "excluded_known": excluded_known,
                "known_findings": known_status,
                "inconclusive": inconclusive,
                "tree": REPO,
            },
            "assumptions": list(getattr(mod, "ASSUMPTIONS", [])),
            "wall_s": round(wall, 2),
            "violations": len(violations),
        }
        os.makedirs(os.path.join(VERIF_HOME, "evidence"), exist_ok=True)
        with open(os.path.join(VERIF_HOME, "evidence", f"{prop_id}.json"), "w") as f:
            json.dump(json_safe(ev), f, indent=1, allow_nan=False, default=str)

    # ---------------------------------------------------------------- verdict
    for name, d in sorted(per_sub.items()):
        print(f"  {prop_id}.{name}: {d['evaluations']} cases, {len(d['nt'])} distinct non-trivial, status={d['status']}"
              + (", budget hit" if d["budget_hit"] else "") + (f", excluded known {d['known']}" if d["known"] else ""))
    if violations:
        seen = set()
        for sub, path, msg in violations:
            print(f"[{prop_id}.{sub}] {str(msg)[:1500]}")
            if path not in seen:
                seen.add(path)
                print(f"VIOLATION property={prop_id} replay={path}")
        return 1
    if harness_errors:
        for sub, msg, tb in harness_errors:
            if tb: eprint(tb)
            eprint(f"HARNESS-ERROR property={prop_id} sub={sub}: {msg}")
        return 2
    print(f"OK property={prop_id} tier={args.tier} seed={seed} evaluations={total_evals + replays_run} "
          f"distinct_nontrivial={len(all_nt)} wall={wall:.1f}s")
    return 0

if __name__ == "__main__":
    # The verdict is printed and the evidence is on disk when main() returns. Replays run in this process, and one that drives
    # coba's real Multiprocessor with a hard-killed worker can leave a multiprocessing queue feeder thread waiting for a
    # lock its dead peer held: the interpreter's shutdown would join that thread for ever (seen: a finished C08 check that never
    # exited). So leave without finalizers, as vlib.worker does.
    rc = main()
    try:
        sys.stdout.flush(); sys.stderr.flush()
    finally:
        os._exit(rc if isinstance(rc, int) else 1)
