"""C08 Multi-process filtering delivers every output exactly once and never hangs.

Sub-checks
  sim    Multiprocessor.filter with the OS replaced by scheduler-backed doubles (vlib/sim_c08.py): queues, events,
         'processes' (participants running a pickled copy of the worker line), the loader thread, completion callbacks and
         the consuming caller are all participants of one deterministic scheduler; the schedule is a Hypothesis-drawn int
         list. Deadlock = no runnable participant while the caller has not returned (sound, not a timeout).
  pb     small configurations, ALL schedules with <= k preemptions (complete enumeration).
  real   real spawned worker processes through Multiprocessor and CobaMultiprocessor (OS schedules sampled; watchdog).
"""
import os, sys, time, itertools, threading
from collections import Counter
from hypothesis import strategies as st

from vlib.core import Sub
from vlib.util import Violation, Inconclusive, require, use_repo
from vlib.sched import Sched, SchedAbort
use_repo()
from vlib import sim_c08
from vlib.sim_c08 import TagFilter, InjectedError, installed, STATE, KINDS

ID = "C08"
LEVEL = "exploration"
RULE = ("case = (n_processes 1-4, maxtasksperchild 0-4, item count 0-12, subset of items whose filter raises, items with "
        "one-to-many (0-3) generator outputs, consumer drains or abandons after k outputs, schedule = list of ints choosing the "
        "next runnable participant at every queue/event operation and process/thread start and exit); non-trivial = (n>=2 and "
        "more than n items) or a worker retirement (m>0 and items>m) or a raising item or an abandonment; distinct = canonical JSON")
ASSUMPTIONS = [
    "sim/pb: the schedule is owned at the granularity of queue put/get/get_nowait, event set/wait, process/thread start and exit and callback start; statements between two such operations are atomic (bytecode-level races between the parent's callback threads are not explored)",
    "a simulated process gets a pickle round-trip copy of its line, runs it, reports (exception, poisoned) and exit code 0; abrupt death of a worker (non-zero exit code) is not modelled",
    "real: OS schedules are sampled, not enumerated; a watchdog of 90 s (cases normally take < 2 s) marks an attempt inconclusive; only three consecutive expiries on the same case are reported as a hang",
    "filters raise Exception subclasses that survive pickling; items are never None (the poison pill)",
    "through CobaMultiprocessor the wrapped filter always returns an iterator of outputs (as ProcessTasks does)",
]

def expected_of(case):
    f = TagFilter(case["raising"], {int(k): v for k, v in case["fan"].items()}, 0.0, {int(k): v for k, v in case.get("kinds", {}).items()})
    return f, Counter(f.expected(range(case["items"])))

def is_injected(case, exc):
    """exc is the error the filter raised for one of the raising items (type and message)"""
    for it in case["raising"]:
        kind = case.get("kinds", {}).get(str(it), "Injected")
        if type(exc) is KINDS[kind] and (getattr(exc, "item", None) == it or f"item {it}" in str(exc)):
            return True
    return False

def judge(case, outs, exc, handled=None, who="caller"):
    f, exp = expected_of(case)
    info = {k: v for k, v in case.items() if k != "choices"}
    got = Counter((o[0], o[1]) for o in outs)
    dup = {k: v for k, v in got.items() if v > exp.get(k, 0)}
    require(not dup, "outputs duplicated or invented", extra=dup, case=info)
    if exc is not None:
        require(is_injected(case, exc),
                f"the call raised {type(exc).__name__}: {exc}, which is not one of the filter's errors", case=info)
    if case["abandon"] is None:
        if case["raising"]:
            require(exc is not None, "a filter error was swallowed: the call returned normally", case=info, outputs=len(outs))
        else:
            require(exc is None, "unexpected exception", exc=repr(exc), case=info)
            require(got == exp, "outputs lost", missing=list((exp - got).items())[:8], case=info)
    m = case["m"]
    if m > 0:
        per = Counter()
        if handled is not None:
            for w, item in handled: per[w] += 1
        else:
            seen = set()
            for o in outs:
                if (o[2], o[0]) not in seen:
                    seen.add((o[2], o[0])); per[o[2]] += 1
        over = {w: c for w, c in per.items() if c > m}
        require(not over, "a worker handled more items than maxtasksperchild", over=over, m=m, case=info)

# ------------------------------------------------------------------------------------------------ simulated driver
def drive(case, outs, res):
    from coba.pipes.multiprocessing import Multiprocessor
    f, _ = expected_of(case)
    f = RecordingTagFilter(f.raising, f.fan, 0.0, f.kinds)
    gen = Multiprocessor(f, case["n"], case["m"]).filter(list(range(case["items"])))
    try:
        if case["abandon"] is None:
            for o in gen: outs.append(o)
        else:
            it = iter(gen)
            for _ in range(case["abandon"]):
                try: outs.append(next(it))
                except StopIteration: break
            it.close()
    except Exception as e:
        res["exc"] = e
    res["returned"] = True

class RecordingTagFilter(TagFilter):
    def filter(self, item):
        STATE.setdefault("handled", []).append((sim_c08.who(), item))
        return super().filter(item)

def run_with(case, sched):
    outs, res = [], {}
    with installed(sched):
        STATE["handled"] = []
        sched.spawn("caller", lambda: drive(case, outs, res))
        result = sched.run()
        handled = list(STATE["handled"])
    info = {k: v for k, v in case.items() if k != "choices"}
    if result == Sched.STEPS:
        raise Inconclusive("step bound")
    for p in sched.parts:
        if p.exc is not None and not isinstance(p.exc, SchedAbort):
            raise Violation(f"participant {p.name} failed with {type(p.exc).__name__}: {p.exc} | case={info}") from p.exc
    if result == Sched.DEADLOCK:
        raise Violation(f"the call hangs: no participant can run, blocked={sched.blocked} | case={info} trace={sched.trace[-25:]} where={sched.blocked_stacks}")
    require(res.get("returned"), "caller did not return", case=info)
    if case["n"] == 1 and case["m"] == 0:
        handled = None
    judge(case, outs, res.get("exc"), handled)
    case["_switches"] = len(sched.trace)

def run_sim(case):
    run_with(case, Sched(choices=case.get("choices", ()), max_steps=30000))

def run_pb(case):
    run_with(case, Sched(max_steps=30000, preemptions={a: b for a, b in case["preemptions"]}))

@st.composite
def sim_cases(draw, tier):
    n = draw(st.sampled_from([1, 2, 2, 3, 3, 4]))
    m = draw(st.sampled_from([0, 0, 1, 2, 3, 4]))
    items = draw(st.one_of(st.integers(0, 12), st.sampled_from([0, 1, n, n + 1, max(1, m), 2 * max(1, m), 2 * n + 1])))
    raising = sorted(draw(st.sets(st.integers(0, max(0, items - 1)), max_size=3))) if items and draw(st.integers(0, 2)) == 0 else []
    fan = {str(i): draw(st.integers(0, 3)) for i in sorted(draw(st.sets(st.integers(0, max(0, items - 1)), max_size=3)))} if items and draw(st.booleans()) else {}
    abandon = draw(st.integers(0, items + 1)) if draw(st.integers(0, 4)) == 0 else None
    kinds = {str(i): draw(st.sampled_from(sorted(KINDS))) for i in raising if draw(st.booleans())}
    return {"n": n, "m": m, "items": items, "raising": raising, "fan": fan, "abandon": abandon, "kinds": kinds,
            "choices": draw(st.lists(st.integers(0, 5), max_size=250 if tier == "quick" else 500))}

def nontrivial(case):
    return ((case["n"] >= 2 and case["items"] > case["n"]) or (case["m"] > 0 and case["items"] > case["m"])
            or bool(case["raising"]) or case["abandon"] is not None)

def key(case):
    return {k: v for k, v in case.items() if not k.startswith("_")}

def classes(case):
    out = [f"n={case['n']}", f"m={case['m']}"]
    if case["raising"]: out.append("raising")
    for k in set(case.get("kinds", {}).values()): out.append("exc=" + k)
    if case["abandon"] is not None: out.append("abandon")
    if case["m"] > 0 and case["items"] > case["m"]: out.append("retirement")
    if case["items"] < case["n"]: out.append("fewer-items-than-procs")
    if case["m"] and case["items"] % case["m"] == 0 and case["items"]: out.append("items-multiple-of-m")
    if case["fan"]: out.append("fanout")
    return out

def pb_enumerate(tier):
    configs = []
    for n, m, items in [(2, 0, 2), (2, 1, 2), (2, 0, 3), (1, 1, 2), (2, 2, 3)]:
        for raising in ([], [0], [1]):
            for abandon in (None, 1):
                if raising and abandon is not None: continue
                configs.append({"n": n, "m": m, "items": items, "raising": raising, "fan": {}, "abandon": abandon})
        configs.append({"n": n, "m": m, "items": items, "raising": [1], "fan": {}, "abandon": None, "kinds": {"1": "AssertionError"}})
    if tier == "thorough":
        for n, m, items in [(2, 1, 3), (3, 0, 3), (3, 1, 4), (2, 2, 5), (2, 0, 5)]:
            for raising in ([], [0], [items - 1], [0, 1]):
                configs.append({"n": n, "m": m, "items": items, "raising": raising, "fan": {"1": 2}, "abandon": None})
    for cfg in configs:
        s = Sched(max_steps=30000, preemptions={})
        try:
            run_with(dict(cfg), s)
        except Exception:
            pass
        L = s.steps + 3
        yield dict(cfg, preemptions=[])
        for s1 in range(L):
            for i1 in range(3):
                yield dict(cfg, preemptions=[[s1, i1]])
        if tier == "thorough" and cfg["items"] <= 3 and cfg["n"] <= 2:
            for s1 in range(0, L):
                for s2 in range(s1 + 1, L, 2):
                    for i1, i2 in ((0, 0), (1, 0), (0, 1)):
                        yield dict(cfg, preemptions=[[s1, i1], [s2, i2]])

# ------------------------------------------------------------------------------------------------ real processes
def run_real(case):
    """One expiry of the watchdog is inconclusive; three consecutive expiries on the same case are reported as a hang."""
    for attempt in range(3):
        try:
            return run_real_once(case)
        except Inconclusive:
            if attempt == 2:
                raise Violation(f"the real multi-process call did not return within 90 s in three consecutive attempts | case={case}")

def run_real_once(case):
    import multiprocessing as mp
    from coba.pipes.multiprocessing import Multiprocessor
    from coba.multiprocessing import CobaMultiprocessor
    from coba.context import CobaContext, NullLogger
    f, _ = expected_of(case)
    f = TagFilter(f.raising, f.fan, case.get("delay", 0.0), f.kinds)
    outs, res = [], {}
    old_logger = CobaContext.logger
    CobaContext.logger = NullLogger()
    def target():
        try:
            if case["via"] == "coba":
                gen = CobaMultiprocessor(f, case["n"], case["m"]).filter(list(range(case["items"])))
            else:
                gen = Multiprocessor(f, case["n"], case["m"], read_wait=case["via"] == "read_wait").filter(list(range(case["items"])))
            if case["abandon"] is None:
                for o in gen: outs.append(o)
            else:
                it = iter(gen)
                for _ in range(case["abandon"]):
                    try: outs.append(next(it))
                    except StopIteration: break
                it.close()
        except Exception as e:
            res["exc"] = e
        except BaseException as e:
            res["other"] = e
        res["returned"] = True
    t = threading.Thread(target=target, daemon=True)
    try:
        t.start()
        t.join(90)
        if t.is_alive():
            raise Inconclusive("watchdog: the real multi-process call did not return within 90 s")
    finally:
        CobaContext.logger = old_logger
        for p in mp.active_children():
            try: p.terminate()
            except Exception: pass
    info = dict(case)
    if "other" in res:
        raise Violation(f"the call raised {type(res['other']).__name__}: {res['other']} | case={info}") from res["other"]
    judge(case, outs, res.get("exc"), None)

@st.composite
def real_cases(draw, tier):
    c = draw(sim_cases(tier))
    c.pop("choices")
    c["via"] = draw(st.sampled_from(["pipes", "pipes", "coba", "read_wait"]))
    c["delay"] = draw(st.sampled_from([0.0, 0.0, 0.01]))
    if c["via"] == "coba":
        # CobaMultiprocessor's callers (ProcessTasks) return iterators of outputs; a bare value would be flattened by its
        # worker-side `yield from`, so every item gets an explicit generator output here
        c["fan"] = {str(i): c["fan"].get(str(i), 1) for i in range(c["items"])}
    if c["via"] == "read_wait" and c["abandon"] is not None:
        c["via"] = "pipes"
    return c

SUBCHECKS = [
    Sub(name="sim", run=run_sim, strategy=sim_cases, nontrivial=nontrivial, classes=classes, key=key,
        quick=1500, thorough=80000, quick_shards=4, quick_budget_s=50,
        what="Multiprocessor.filter over scheduler-backed queues/events/processes/threads/callbacks with generated schedules; exact output multiset, error propagation, clean abandonment, maxtasksperchild bound, sound deadlock detection"),
    Sub(name="pb", run=run_pb, enumerate=pb_enumerate, nontrivial=lambda c: len(c["preemptions"]) >= 1, exhaustive=True,
        quick_shards=4, quick_budget_s=50, thorough_budget_s=1500,
        what="complete enumeration of all schedules with <= 1 preemption (thorough: <= 2 for the smallest) of small configurations (n<=3, items<=5, raising subsets, abandonment)"),
    Sub(name="real", run=run_real, strategy=real_cases, nontrivial=nontrivial, classes=classes, quick=24, thorough=640,
        quick_shards=8, thorough_shards=16, quick_budget_s=60, thorough_budget_s=1200,
        what="real spawned workers via Multiprocessor (incl. read_wait) and CobaMultiprocessor; same oracle; OS schedules sampled"),
]
