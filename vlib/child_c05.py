"""C05 child process: run call programs on fresh generators in *this* interpreter (own PYTHONHASHSEED, own import of coba)
and print the exactly-encoded results. stdin: JSON list of {"seed": desc, "calls": [...], "module": bool}.
Run as: python child_c05.py   with VERIF_REPO and VERIF_HOME in the environment."""
import sys, os, json

def main():
    repo = os.path.realpath(os.environ.get("VERIF_REPO", "/repo"))
    home = os.environ.get("VERIF_HOME") or os.path.dirname(os.path.dirname(os.path.abspath(__file__)))
    sys.path.insert(0, repo)
    sys.path.insert(1, home)
    import random as pyrandom
    import coba.random as cr
    from vlib.calls_c05 import build_seed, exec_call, enc
    progs = json.load(sys.stdin)
    out = []
    for p in progs:
        seed = build_seed(p["seed"])
        pyrandom.seed(len(out))
        if p.get("module"):
            cr.seed(seed)
            obj, res = cr, []
        else:
            obj = cr.CobaRandom(seed)
            res = [obj.seed]
        for call in p["calls"]:
            try:
                res.append(enc(exec_call(obj, call)[0]))
            except Exception as e:
                res.append({"exc": type(e).__name__})
        out.append(res)
    json.dump({"tree": os.path.dirname(os.path.dirname(os.path.realpath(cr.__file__))), "results": out}, sys.stdout)

if __name__ == "__main__":
    main()
