"""C18 Analysis compares only complete, equal-length runs and averages correctly.

Four generated sub-checks, every oracle is a direct recomputation from the interaction rows:

fin      a generated Result (built either from row lists or through the transaction decoder), one where_fin(n,l,p)
         query: kept pairing groups, truncation, prefix preservation, referential integrity of the four tables.
chain    a generated Result and a chain of where / where_best / where_fin steps. After every step the tables are
         read back through the public API and become the model input of the next step, so each step is judged
         on its own (no accumulated model drift).
learners raw_learners (and, on unambiguous inputs, raw_contrast) against naive per-evaluation progressive /
         windowed / final means, compared as multisets per (learner level, x) with tolerance 1e-9. The call is made
         on a fresh Result or on the object returned by a short chain (where; where_fin(None,l,p) with the very l and p
         raw_learners is then asked for; where_fin -> where_best; where_fin with other arguments); some cases hold NaN
         rewards, which must propagate into the averages.
mavg     moving_average against the textbook definitions (cumulative mean, trailing window, weighted variants,
         'exp' = pandas' ewm(span, adjust=True).mean() as the code comment documents).

Reading of "complete" (DESIGN.md section 6, C18): levels = the distinct l values that occur among the evaluations
of the Result being filtered; a p-group is complete iff it holds exactly one evaluation for each level. For an
integer n the statement can be read "pair, then length" or "length, then pair"; only what both readings and the
docstring of where_fin ("an l exists for every p and all p have n interactions") agree on is asserted.
"""
import math
from collections import defaultdict, Counter
from hypothesis import strategies as st

from vlib.core import Sub
from vlib.util import Violation, require, use_repo
use_repo()
from coba.results.core import Result, TransactionResult, moving_average
from coba.context import CobaContext, NullLogger
from coba.exceptions import CobaException

CobaContext.logger = NullLogger()

ID = "C18"
LEVEL = "exploration"
DESIGN_REF = "DESIGN.md section 6, C18"
RULE = ("cases = (1-4 environments x 1-4 learners x 1-2 evaluators with generated ids and parameter columns holding "
        "duplicate / mixed-type / tuple / None values, a generated subset of the triples each with 0-8 interactions carrying a "
        "unique per-row tag, built from row lists or through TransactionResult) plus a query: where_fin(n,l,p) with l/p single "
        "columns or lists over id and parameter columns and n in {None,'min',1..9}; or a chain of 1-4 where/where_best/where_fin "
        "steps; or raw_learners/raw_contrast(x,l,p,span); or moving_average(values,span,weights). A fin/chain/learners case is "
        "non-trivial when the filtered Result has >= 2 pairing groups (or >= 2 evaluations when unpaired) of which at least one is "
        "incomplete, over-full or of a different length; a mavg case when a real window (1 < span < len) or weights are used. "
        "distinct = distinct canonical JSON of the case")
ASSUMPTIONS = [
    "every evaluation's interactions carry index 1..N as written by an Experiment (where_fin truncates by index value); where() on 'index' is only generated with '<' / '<=' so that this stays true along a chain",
    "l and p are given together or both omitted (l without p is not a documented call); with both omitted only the length clause and the preservation of table consistency are asserted (coba's own tests pin where_fin(n) as a pure length filter)",
    "levels of l are the distinct l values occurring among the evaluations of the Result being filtered (a learner row without any evaluation is not a level)",
    "integer n together with l/p: asserted = output complete and exactly n long, every group that is complete with all evaluations >= n is kept, nothing is kept that neither reading keeps",
    "parameter values are hashable and none equals the string 'x' (raw_learners uses 'x' as a column name); no two distinct values compare equal (no 1 / 1.0 / True mixtures); no NaN parameter values",
    "Result.where is only driven with Table queries outside the Table defects listed in DESIGN.md section 5 / C17 (single keyword, no '!in', no duplicate values in 'in' lists, no insert after index)",
    "raw_contrast is only judged when every (p, contrasted level) holds at most one evaluation and x is 'index' or an id column (the code documents that it assumes this)",
    "where_best is always given p explicitly (p=None is documented as defaulting to full_p but is outside this property's statement)",
    "NaN rewards (learners sub-check only) must propagate into every progressive / final average whose window holds them; they are not combined with a trailing window (1 < span) over x='index', where the running-sum implementation stays NaN after the value has left the window, nor with where_best (ranking NaN means is undefined); +-inf rewards are not generated",
    "evaluations longer than 1024 interactions (1 case in 40, lengths 1025..2100, thorough ..3000, never a multiple of 512) are only combined with x = parameter / id columns (final averages); their rewards come from a compact generator stored in the case",
    "where_best: how an exact tie between two full_l is resolved is neither documented nor pinned by coba's tests and is not asserted; asserted is that the selection does not depend on the order of the rewards inside the evaluations (twin Results with sorted rewards), whenever n does not cut an evaluation",
    "moving_average: span is None or an int >= 1, explicit weights are positive (0.1..10), 'exp' needs an int span; values within +-100",
]

TOL = 1e-9
ID_COLS = ("environment_id", "learner_id", "evaluator_id")
ENV_PCOLS = ("data", "seed")
LRN_PCOLS = ("family", "lr")
VAL_PCOLS = ("etype",)
# alternative spellings of the parameter column names: a name that merely *contains* 'index' is an ordinary parameter
ENV_NAMES = (("data", "index_seed", "data", "my index"), ("seed", "seed", "reindex"))
LRN_NAMES = (("family",), ("lr", "lr", "lr_index"))          # 'family' is kept: it is part of a learner's full_name
VAL_NAMES = (("etype", "etype", "eval index"),)

def expand_ys(ys):
    """rewards of one evaluation: a plain list, or {"gen": [N, a, b, m]} for a long generated sequence (kept compact
    in the case; non-constant, exactly representable multiples of 1/8)"""
    if isinstance(ys, dict):
        n, a, b, m = ys["gen"]
        return [((a * i + b * ((i * i) % m)) % 64) / 8 for i in range(1, n + 1)]
    return ys
POOL = [0, 1, 2, 3, "a", "b", "c", (1, 2), ("a", 1), 0.5, None]

def close(a, b):
    if isinstance(a, float) and math.isnan(a): return isinstance(b, float) and math.isnan(b)
    if isinstance(b, float) and math.isnan(b): return False
    return abs(a - b) <= TOL * max(1.0, abs(a), abs(b))

# ====================================================================================== model of a Result
class Model:
    """env/lrn/val: {id: {param col: value}} ; evals: {(e,l,v): [row dict without the three ids]} (only non-empty)."""
    def __init__(self, env, lrn, val, evals, env_cols, lrn_cols, val_cols, int_cols):
        self.env, self.lrn, self.val, self.evals = env, lrn, val, evals
        self.env_cols, self.lrn_cols, self.val_cols, self.int_cols = tuple(env_cols), tuple(lrn_cols), tuple(val_cols), tuple(int_cols)

    def colval(self, col, t):
        e, l, v = t
        if col == "environment_id": return e
        if col == "learner_id": return l
        if col == "evaluator_id": return v
        if col == "full_name": return ("full_name", l)     # unique per learner by construction of the name
        if col in self.env_cols: return self.env[e].get(col)
        if col in self.lrn_cols: return self.lrn[l].get(col)
        if col in self.val_cols: return self.val[v].get(col)
        raise KeyError(col)

    def spec(self, spec, t):
        if isinstance(spec, (list, tuple)): return tuple(self.colval(c, t) for c in spec)
        return self.colval(spec, t)

    def consistent(self):
        es = {t[0] for t in self.evals}; ls = {t[1] for t in self.evals}; vs = {t[2] for t in self.evals}
        return es == set(self.env) and ls == set(self.lrn) and vs == set(self.val)

NAN = float("nan")      # one object for every undefined reward, so that row lists compare equal by identity

def nan1(v):
    return NAN if isinstance(v, float) and v != v else v

def model_of_case(case):
    env = {i: dict(zip(case["env_cols"], r)) for i, r in zip(case["env_ids"], case["env_rows"])}
    lrn = {i: dict(zip(case["lrn_cols"], r)) for i, r in zip(case["lrn_ids"], case["lrn_rows"])}
    val = {i: dict(zip(case["val_cols"], r)) for i, r in zip(case["val_ids"], case["val_rows"])}
    evals = {}
    for ei, li, vi, ys in case["evals"]:
        ys = expand_ys(ys)
        t = (case["env_ids"][ei], case["lrn_ids"][li], case["val_ids"][vi])
        if ys:
            evals[t] = [{"index": k + 1, "reward": nan1(y), "tag": f"{t[0]}.{t[1]}.{t[2]}.{k + 1}"} for k, y in enumerate(ys)]
    return Model(env, lrn, val, evals, case["env_cols"], case["lrn_cols"], case["val_cols"], ("index", "reward", "tag"))

def norm(v):
    """Missing (absent parameter) reads as None; it is equal to and hashes like None by design."""
    return None if v is None or repr(v) == "None" else v

def read_result(res, what):
    """Read the four tables through the public API and check the structural invariants every Result must have."""
    def ptable(tab, idc):
        cols = list(tab.columns)
        require(idc in cols, f"{what}: parameter table lost its id column", columns=cols)
        out = {}
        for d in tab.to_dicts():
            i = d[idc]
            require(i not in out, f"{what}: id {i} listed twice in the {idc} table")
            out[i] = {k: norm(v) for k, v in d.items() if k != idc}
        return out, [c for c in cols if c != idc]
    env, env_cols = ptable(res.environments, "environment_id")
    lrn, lrn_cols = ptable(res.learners, "learner_id")
    val, val_cols = ptable(res.evaluators, "evaluator_id")
    icols = list(res.interactions.columns)
    for c in ID_COLS + ("index",):
        require(c in icols, f"{what}: interactions table lost column {c}", columns=icols)
    evals = defaultdict(list)
    for d in res.interactions.to_dicts():
        t = (d["environment_id"], d["learner_id"], d["evaluator_id"])
        evals[t].append({k: nan1(v) for k, v in d.items() if k not in ID_COLS})
    n_rows = len(res.interactions)
    require(n_rows == sum(len(r) for r in evals.values()), f"{what}: len(interactions) disagrees with its rows")
    for t in evals:
        require(t[0] in env, f"{what}: interaction rows reference environment_id {t[0]} which is not in the environments table", envs=sorted(env))
        require(t[1] in lrn, f"{what}: interaction rows reference learner_id {t[1]} which is not in the learners table", lrns=sorted(lrn))
        require(t[2] in val, f"{what}: interaction rows reference evaluator_id {t[2]} which is not in the evaluators table", vals=sorted(val))
    return Model(env, lrn, val, dict(evals), env_cols, lrn_cols, val_cols, [c for c in icols if c not in ID_COLS])

def require_same_model(a, b, what):
    require(a.env == b.env and a.lrn == b.lrn and a.val == b.val, f"{what}: parameter tables differ",
            env=(a.env, b.env), lrn=(a.lrn, b.lrn), val=(a.val, b.val))
    require(a.evals == b.evals, f"{what}: interaction rows differ",
            only_a={t: r for t, r in a.evals.items() if b.evals.get(t) != r}, only_b={t: r for t, r in b.evals.items() if a.evals.get(t) != r})

def require_subresult(out, src, what, prefix=True, both_ways=True):
    """out's rows are unchanged rows of src (a prefix of each evaluation), its parameter rows are src's, and the tables
    reference each other both ways (forward integrity is already established by read_result)."""
    for t, rows in out.evals.items():
        require(t in src.evals, f"{what}: evaluation {t} does not exist in the input")
        if prefix:
            require(rows == src.evals[t][:len(rows)], f"{what}: evaluation {t} is not an unchanged prefix of the original",
                    got=rows, original=src.evals[t])
        else:
            orig = src.evals[t]
            it = iter(orig)
            require(all(any(r == o for o in it) for r in rows), f"{what}: evaluation {t} is not an unchanged sub-sequence of the original", got=rows, original=orig)
    for name, o, s in (("environments", out.env, src.env), ("learners", out.lrn, src.lrn), ("evaluators", out.val, src.val)):
        for i, row in o.items():
            require(i in s, f"{what}: {name} row {i} does not exist in the input")
            require(row == s[i], f"{what}: {name} row {i} changed", got=row, original=s[i])
    if both_ways:
        es = {t[0] for t in out.evals}; ls = {t[1] for t in out.evals}; vs = {t[2] for t in out.evals}
        require(set(out.env) == es, f"{what}: environments table lists ids without any interaction", unreferenced=sorted(set(out.env) - es))
        require(set(out.lrn) == ls, f"{what}: learners table lists ids without any interaction", unreferenced=sorted(set(out.lrn) - ls))
        require(set(out.val) == vs, f"{what}: evaluators table lists ids without any interaction", unreferenced=sorted(set(out.val) - vs))

# ====================================================================================== where_fin oracle
def complete_groups(m, triples, l, p):
    """(levels, {pval: [triples]}, set of pvals whose group holds exactly one evaluation per level)."""
    levels = {m.spec(l, t) for t in triples}
    groups = defaultdict(list)
    for t in triples:
        groups[m.spec(p, t)].append(t)
    ok = set()
    for pv, ts in groups.items():
        c = Counter(m.spec(l, t) for t in ts)
        if set(c) == levels and all(k == 1 for k in c.values()):
            ok.add(pv)
    return levels, groups, ok

def check_fin(src, out, n, l, p, what):
    paired = l is not None or p is not None
    require_subresult(out, src, what, prefix=True, both_ways=(paired or src.consistent()))
    lens = {t: len(r) for t, r in src.evals.items()}
    got = {t: len(r) for t, r in out.evals.items()}
    if not paired:
        if n is None:      want = dict(lens)
        elif n == "min":   want = {t: min(lens.values()) for t in lens}
        else:              want = {t: n for t, k in lens.items() if k >= n}
        require(got == want, f"{what}: kept evaluations / lengths differ from the length rule", n=n, got=got, want=want, original=lens)
        return
    levels, groups, ok = complete_groups(src, list(lens), l, p)
    keepA = {t for pv in ok for t in groups[pv]}
    if n is None or n == "min":
        m = min((lens[t] for t in keepA), default=0)
        want = {t: (lens[t] if n is None else m) for t in keepA}
        require(got == want, f"{what}: kept pairing groups / lengths differ", n=n, l=l, p=p, got=got, want=want, original=lens,
                levels=sorted(levels, key=repr))
        return
    # integer n with pairing
    for t, k in got.items():
        require(k == n, f"{what}: evaluation {t} has {k} interactions in the output, not n={n}", original=lens)
    o_levels, o_groups, o_ok = complete_groups(out, list(got), l, p)
    bad = [pv for pv in o_groups if pv not in o_ok]
    require(not bad, f"{what}: output is not complete - pairing group(s) {bad} lack an evaluation for some level (or hold two)",
            n=n, l=l, p=p, out_levels=sorted(o_levels, key=repr), got=got, original=lens)
    must = {t for pv in ok if all(lens[t] >= n for t in groups[pv]) for t in groups[pv]}
    require(must <= set(got), f"{what}: a complete pairing group whose evaluations all have >= n interactions was dropped",
            n=n, l=l, p=p, missing=sorted(must - set(got)), got=got, original=lens)
    longs = [t for t in lens if lens[t] >= n]
    _, groupsB, okB = complete_groups(src, longs, l, p)
    keepB = {t for pv in okB for t in groupsB[pv]}
    extra = set(got) - (keepA | keepB)
    require(not extra, f"{what}: kept evaluations that neither 'pair then length' nor 'length then pair' keeps",
            n=n, l=l, p=p, extra=sorted(extra), original=lens)

# ====================================================================================== building a Result
def build(case):
    m = model_of_case(case)
    def perm(rows, key):
        order = case.get(key) or list(range(len(rows)))
        return [rows[i] for i in order if i < len(rows)] + [rows[i] for i in range(len(rows)) if i not in order]
    if case["build"] == "rows":
        envs = [["environment_id", *case["env_cols"]]] + perm([[i, *r] for i, r in zip(case["env_ids"], case["env_rows"])], "env_order")
        lrns = [["learner_id", *case["lrn_cols"]]] + perm([[i, *r] for i, r in zip(case["lrn_ids"], case["lrn_rows"])], "lrn_order")
        vals = [["evaluator_id", *case["val_cols"]]] + perm([[i, *r] for i, r in zip(case["val_ids"], case["val_rows"])], "val_order")
        blocks = []
        for t, rows in m.evals.items():
            blocks.append([[*t, r["index"], r["reward"], r["tag"]] for r in rows])
        blocks = perm(blocks, "int_order")
        ints = [["environment_id", "learner_id", "evaluator_id", "index", "reward", "tag"]] + [r for b in blocks for r in b]
        res = Result(envs, lrns, vals, ints)
    else:
        trx = [["version", 4]]
        for i, r in zip(case["env_ids"], case["env_rows"]): trx.append(["E", i, {k: v for k, v in zip(case["env_cols"], r) if not (case.get("sparse") and v is None)}])
        for i, r in zip(case["lrn_ids"], case["lrn_rows"]): trx.append(["L", i, {k: v for k, v in zip(case["lrn_cols"], r) if not (case.get("sparse") and v is None)}])
        for i, r in zip(case["val_ids"], case["val_rows"]): trx.append(["V", i, {k: v for k, v in zip(case["val_cols"], r) if not (case.get("sparse") and v is None)}])
        recs = []
        for ei, li, vi, ys in case["evals"]:
            ys = expand_ys(ys)
            t = [case["env_ids"][ei], case["lrn_ids"][li], case["val_ids"][vi]]
            # an evaluation without interactions is written as {"_packed": {}} by TransactionEncode
            packed = {"reward": list(ys), "tag": [f"{t[0]}.{t[1]}.{t[2]}.{k + 1}" for k in range(len(ys))]} if ys else {}
            recs.append(["I", t, {"_packed": packed}])
        trx += perm(recs, "int_order")
        res = TransactionResult().filter(trx)
    return res, m

def fin_args(q):
    l, p = q["l"], q["p"]
    return q["n"], (list(l) if isinstance(l, (list, tuple)) else l), (list(p) if isinstance(p, (list, tuple)) else p)

def known_cols(m):
    return set(ID_COLS) | set(m.env_cols) | set(m.lrn_cols) | set(m.val_cols) | {"full_name"}

def spec_cols(s):
    return [] if s is None else (list(s) if isinstance(s, (list, tuple)) else [s])

def run_fin(case):
    res, m = build(case)
    before = read_result(res, "constructed Result")
    if case["build"] == "trx" and case.get("sparse"):
        # absent parameters read back as Missing == None; columns that are absent everywhere do not exist
        for tab, cols in ((m.env, before.env_cols), (m.lrn, before.lrn_cols), (m.val, before.val_cols)):
            for row in tab.values():
                for k in list(row):
                    if k not in cols: del row[k]
        m.env_cols, m.lrn_cols, m.val_cols = before.env_cols, before.lrn_cols, before.val_cols
    require_same_model(before, m, "constructed Result vs the rows it was built from")
    n, l, p = fin_args(case["q"])
    if any(c not in known_cols(before) for c in spec_cols(l) + spec_cols(p)):
        return   # a column that is absent everywhere (sparse build): not a documented call
    fn = res.where_fin if case["q"].get("api", "where") == "where" else res.filter_fin
    out = fn(n, l, p)
    check_fin(before, read_result(out, "where_fin output"), n, l, p, f"where_fin(n={n!r}, l={l!r}, p={p!r})")
    after = read_result(res, "input after where_fin")
    require_same_model(after, before, "where_fin changed the Result it was called on")

# ====================================================================================== strategies: Results
def chance(draw, num, den):
    """Bernoulli draw; Hypothesis over-produces the first element of sampled_from, so the event sits at the far end"""
    return draw(st.sampled_from(range(den))) >= den - num

def col_values(draw, k, few=False):
    """k parameter values: usually distinct, sometimes with duplicates, from one of several type mixes"""
    kind = "few" if few else draw(st.sampled_from(["int", "few", "str", "mixed", "mixed", "tuple"]))
    pool = {"int": [0, 1, 2, 3], "str": ["a", "b", "c", "d"], "tuple": [(1, 2), ("a", 1), (2, 1), (1,)], "mixed": POOL,
            "few": [draw(st.sampled_from(["a", 1, (1, 2)])), draw(st.sampled_from(["b", 2, None]))]}[kind]
    if chance(draw, 6, 10) and not few:
        vals = list(draw(st.permutations(pool)))[:k]
        while len(vals) < k: vals.append(pool[len(vals) % len(pool)])
    else:
        vals = [draw(st.sampled_from(pool)) for _ in range(k)]
    return vals

def param_table(draw, n, pcols, few=False):
    ids = draw(st.lists(st.integers(0, 9), min_size=n, max_size=n, unique=True))
    cols = [c for c in pcols if chance(draw, 3, 4)] if not few else [pcols[0]] + [c for c in pcols[1:] if chance(draw, 1, 3)]
    colvals = [col_values(draw, n, few and i == 0) for i, _ in enumerate(cols)]
    rows = [[cv[i] for cv in colvals] for i in range(n)]
    return ids, cols, rows

def draw_result(draw, tier, min_rows=1, best=False):
    """best=True: a Result shaped for where_best - shared family / data values, one evaluator, nearly all triples present"""
    nE, nL = draw(st.sampled_from([2, 3, 1, 4, 2, 3])), draw(st.sampled_from([2, 3, 1, 4, 2]))
    nV = draw(st.sampled_from([1, 1, 1, 2]))
    if best: nE, nL, nV = draw(st.sampled_from([2, 3, 4])), draw(st.sampled_from([3, 2, 4])), (2 if best == "val" else 1)
    names = lambda pools: tuple(draw(st.sampled_from(pool)) for pool in pools)
    env_ids, env_cols, env_rows = param_table(draw, nE, names(ENV_NAMES), bool(best))
    lrn_ids, lrn_cols, lrn_rows = param_table(draw, nL, names(LRN_NAMES), bool(best))
    val_ids, val_cols, val_rows = param_table(draw, nV, names(VAL_NAMES), best == "val")
    present = draw(st.sampled_from([90, 100, 100, 80, 60])) if not best else draw(st.sampled_from([100, 100, 95]))
    mode = draw(st.sampled_from(["mostly", "equal", "mostly", "ragged"]))
    base = draw(st.integers(1, 8))
    ints = draw(st.booleans())
    yv = st.integers(-3, 5) if ints else st.one_of(st.integers(-3, 5), st.floats(-4, 4, allow_nan=False, width=32))
    evals = []
    for ei in range(nE):
        for li in range(nL):
            for vi in range(nV):
                if not chance(draw, present, 100): continue
                if mode == "equal": k = base
                elif mode == "mostly": k = base if chance(draw, 4, 5) else draw(st.sampled_from(range(9)))
                else: k = draw(st.sampled_from(range(9)))
                evals.append([ei, li, vi, [draw(yv) for _ in range(k)]])
    if sum(len(e[3]) for e in evals) < min_rows:
        evals.append([0, 0, 0, [draw(yv) for _ in range(max(base, min_rows))]])
        evals = [e for i, e in enumerate(evals) if e[:3] != [0, 0, 0] or i == len(evals) - 1]
    case = {"env_ids": env_ids, "env_cols": env_cols, "env_rows": env_rows,
            "lrn_ids": lrn_ids, "lrn_cols": lrn_cols, "lrn_rows": lrn_rows,
            "val_ids": val_ids, "val_cols": val_cols, "val_rows": val_rows,
            "evals": evals, "build": draw(st.sampled_from(["rows", "rows", "trx"]))}
    if case["build"] == "rows":
        if draw(st.booleans()):
            case["int_order"] = list(draw(st.permutations(range(len([e for e in evals if e[3]])))))
    else:
        case["sparse"] = chance(draw, 1, 4)
        if draw(st.booleans()):
            case["int_order"] = list(draw(st.permutations(range(len(evals)))))
    return case

def draw_lp(draw, case, allow_none=True, allow_full_name=True):
    """a (l, p) pair of column specs"""
    if allow_none and chance(draw, 1, 8):
        return None, None
    lside = ["learner_id", "learner_id", *case["lrn_cols"]] + (["full_name"] if allow_full_name else [])
    pside = ["environment_id", "environment_id", *case["env_cols"]]
    vside = ["evaluator_id", *case["val_cols"]]
    if chance(draw, 1, 10):
        lside, pside = [c for c in pside], [c for c in lside if c != "full_name"]
    def spec(side, extra):
        k = draw(st.sampled_from([0, 0, 0, 1, 2]))
        if k == 0:
            return draw(st.sampled_from(side))
        cols = list(draw(st.permutations(list(dict.fromkeys(side + extra)))))[:k]
        return cols
    vl = vside if draw(st.booleans()) else []
    l = spec(lside, vl)
    used = set(spec_cols(l))
    vp = [c for c in vside if c not in used] if draw(st.booleans()) else []
    p = spec([c for c in pside if c not in used], vp)
    if chance(draw, 1, 12) and not (used & set(vside)) and not (set(spec_cols(p)) & set(vside)):
        l, p = draw(st.sampled_from(vside)), p      # the documented l='evaluator_id' comparison
    return l, p

def draw_n(draw):
    return draw(st.sampled_from([None, "min", "k", "k", "k"]))

@st.composite
def fin_cases(draw, tier):
    case = draw_result(draw, tier)
    l, p = draw_lp(draw, case)
    n = draw_n(draw)
    if n == "k": n = draw(st.sampled_from(range(1, 10)))
    if l is None and n is None: n = draw(st.sampled_from(["min", 2, 3]))
    case["q"] = {"n": n, "l": l, "p": p, "api": draw(st.sampled_from(["where", "where", "filter"]))}
    return case

def fin_profile(case):
    """facts about the case used for non-triviality and class labels (pure model computation)"""
    m = model_of_case(case)
    n, l, p = fin_args(case["q"])
    lens = {t: len(r) for t, r in m.evals.items()}
    out = {"paired": l is not None, "n": "None" if n is None else ("min" if n == "min" else "int"), "evals": len(lens),
           "ragged": len(set(lens.values())) > 1, "groups": 0, "incomplete": 0, "overfull": 0, "complete": 0, "short": 0}
    if isinstance(n, int): out["short"] = sum(1 for k in lens.values() if k < n)
    if l is not None:
        levels, groups, ok = complete_groups(m, list(lens), l, p)
        out["groups"], out["complete"] = len(groups), len(ok)
        for pv, ts in groups.items():
            c = Counter(m.spec(l, t) for t in ts)
            if any(k > 1 for k in c.values()): out["overfull"] += 1
            elif pv not in ok: out["incomplete"] += 1
        if isinstance(n, int):
            out["complete_but_short"] = sum(1 for pv in ok if any(lens[t] < n for t in groups[pv]))
    return out

def fin_nontrivial(case):
    f = fin_profile(case)
    if f["paired"]:
        return f["groups"] >= 2 and (f["incomplete"] + f["overfull"] > 0 or f["ragged"])
    return f["evals"] >= 2 and f["ragged"]

def fin_classes(case):
    f = fin_profile(case)
    out = [f"n={f['n']}", "paired" if f["paired"] else "unpaired", f"build={case['build']}"]
    if f["paired"]:
        out.append("kept-some" if f["complete"] else "kept-none")
        if f["incomplete"]: out.append("has-incomplete-group")
        if f["overfull"]: out.append("has-overfull-group")
        if f.get("complete_but_short"): out.append("complete-group-with-short-evaluation")
        q = case["q"]
        if isinstance(q["l"], (list, tuple)) or isinstance(q["p"], (list, tuple)): out.append("list-spec")
        if any(c not in ID_COLS for c in spec_cols(q["l"]) + spec_cols(q["p"])): out.append("param-column-spec")
    if f["ragged"]: out.append("ragged")
    if f["short"]: out.append("has-short-evaluation")
    if not model_of_case(case).consistent(): out.append("input-has-unreferenced-parameter-row")
    return out

# ====================================================================================== chain sub-check
def pick(seq, i):
    return seq[i % len(seq)]

def where_model(m, col, op, arg):
    """Result.where for one keyword: which evaluations / rows survive (the cascade is checked structurally)."""
    def test(v):
        if op == "=": return v == arg
        if op == "!=": return v != arg
        if op == "in": return v in arg
        if op == "<": return v < arg
        if op == "<=": return v <= arg
        if op == ">": return v > arg
        if op == ">=": return v >= arg
    evals = {}
    for t, rows in m.evals.items():
        if col == "index":
            keep = [r for r in rows if test(r["index"])]
            if keep: evals[t] = keep
        elif test(m.colval(col, t)):
            evals[t] = rows
    return evals

def best_model(m, l, p, n, full_l, full_p):
    """where_best: among the Result finished over (full_l, full_p) keep, for every (p, l), the full_l with the best mean
    of per-evaluation means of the first n rewards. Returns (finished triples, {(pv,lv): {flv: (mean, [triples])}})."""
    lens = list(m.evals)
    _, groups, ok = complete_groups(m, lens, full_l, full_p)
    fin = [t for pv in ok for t in groups[pv]]
    table = defaultdict(lambda: defaultdict(list))
    for t in fin:
        table[(m.spec(p, t), m.spec(l, t))][m.spec(full_l, t)].append(t)
    score = {}
    for key, cands in table.items():
        score[key] = {}
        for flv, ts in cands.items():
            per = []
            for t in ts:
                ys = [r["reward"] for r in m.evals[t]][:n]
                per.append(sum(ys) / len(ys))
            score[key][flv] = (sum(per) / len(per), ts)
    return fin, score

def resolve_where(cur, op):
    """turn a where descriptor (indices modulo what exists) into (column, operator, argument, keyword form)"""
    _, colsel, opname, a, b = op
    cols = ["environment_id", "learner_id", "evaluator_id", *cur.env_cols, *cur.lrn_cols, *cur.val_cols, "index"]
    col = pick(cols, colsel)
    if col == "index":
        opname = opname if opname in ("<", "<=") else "<="       # keeps every evaluation an index prefix (see ASSUMPTIONS)
        arg = 1 + a % 9
    else:
        present = sorted({cur.colval(col, t) for t in cur.evals}, key=repr)
        universe = present + [99 if col in ID_COLS else "zz"]
        if opname in ("<", "<=", ">", ">=") and col not in ID_COLS:
            opname = "=" if a % 2 else "!="                      # ordering only over the (integer) id columns
        if opname == "in":
            start, k = a % len(universe), 1 + b % len(universe)
            arg = [universe[(start + j) % len(universe)] for j in range(k)]   # distinct values
        else:
            arg = pick(universe, a)
            if not isinstance(arg, (int, str)):
                opname, arg = "in", [arg]                         # a tuple argument means 'in'; None/float: use the list form
    if opname == "in":  kw = {col: ({"in": arg} if b % 2 else arg)}
    elif opname == "=": kw = {col: ({"=": arg} if b % 2 else arg)}
    else:               kw = {col: {opname: arg}}
    return col, opname, arg, kw

def apply_where(res, cur, op, prefix):
    """one generated Result.where(col=...) call, judged against a row-by-row filter of the tables read before it"""
    col, opname, arg, kw = resolve_where(cur, op)
    what = f"{prefix} where({kw})"
    new = res.where(**kw)
    out = read_result(new, what)
    want = where_model(cur, col, opname, arg)
    require_subresult(out, cur, what, prefix=True, both_ways=False)
    require(out.evals == want, f"{what}: surviving interaction rows differ from a row-by-row filter",
            got={t: len(r) for t, r in out.evals.items()}, want={t: len(r) for t, r in want.items()})
    return new, out

def result_from_model(m, reorder=None):
    """a fresh Result holding the tables of model m; reorder(list of rewards) -> list permutes the rewards inside every
    evaluation (index and tag stay in place)"""
    envs = [["environment_id", *m.env_cols]] + [[i, *[r.get(c) for c in m.env_cols]] for i, r in m.env.items()]
    lrns = [["learner_id", *m.lrn_cols]] + [[i, *[r.get(c) for c in m.lrn_cols]] for i, r in m.lrn.items()]
    vals = [["evaluator_id", *m.val_cols]] + [[i, *[r.get(c) for c in m.val_cols]] for i, r in m.val.items()]
    ints = [["environment_id", "learner_id", "evaluator_id", *m.int_cols]]
    for t, rows in m.evals.items():
        ys = [r["reward"] for r in rows]
        if reorder: ys = reorder(ys)
        for r, y in zip(rows, ys):
            ints.append([*t, *[(y if c == "reward" else r.get(c)) for c in m.int_cols]])
    return Result(envs, lrns, vals, ints)

def check_best_order_independence(cur, args, what):
    """where_best ranks by average reward, so which evaluations it keeps may not depend on the ORDER of the rewards inside
    an evaluation (how an exact tie is resolved is not documented and not asserted; that it is resolved the same way for
    permuted rewards is). Two fresh twins of the current tables: rewards as they are / sorted ascending."""
    if any(r["reward"] != r["reward"] for rows in cur.evals.values() for r in rows) or "reward" not in cur.int_cols:
        return
    kept = []
    for reorder in (None, sorted):
        twin = result_from_model(cur, reorder)
        kept.append(set(read_result(twin.where_best(*args), what + " (twin)").evals))
    require(kept[0] == kept[1], f"{what}: the kept evaluations change when the rewards inside the evaluations are sorted "
            "(same averages, different order)", kept_as_is=sorted(kept[0]), kept_sorted=sorted(kept[1]),
            rewards={str(t): [r["reward"] for r in rows] for t, rows in cur.evals.items()})

def apply_step(res, cur, op, step):
    """one where / where_fin / where_best call on the real Result, judged against the tables read before it.
    Returns (new Result, its tables as a Model) or None when the step names a column that does not exist."""
    kind = op[0]
    if kind == "where":
        return apply_where(res, cur, op, f"step {step}")
    if kind == "fin":
        _, n, l, p = op
        n, l, p = fin_args({"n": n, "l": l, "p": p})
        if any(c not in known_cols(cur) for c in spec_cols(l) + spec_cols(p)):
            return None
        what = f"step {step} where_fin(n={n!r}, l={l!r}, p={p!r})"
        new = res.where_fin(n, l, p)
        out = read_result(new, what)
        check_fin(cur, out, n, l, p, what)
        return new, out
    _, l, p, n, full_l, full_p = op
    _, l, p = fin_args({"n": None, "l": l, "p": p})
    _, full_l, full_p = fin_args({"n": None, "l": full_l, "p": full_p})
    if any(c not in known_cols(cur) for c in spec_cols(l) + spec_cols(p) + spec_cols(full_l) + spec_cols(full_p)):
        return None
    what = f"step {step} where_best(l={l!r}, p={p!r}, n={n!r}, full_l={full_l!r}, full_p={full_p!r})"
    new = res.where_best(l, p, "reward", n, full_l, full_p)
    out = read_result(new, what)
    fin, score = best_model(cur, l, p, n, full_l, full_p)
    require_subresult(out, cur, what, prefix=True, both_ways=True)
    require(all(len(out.evals[t]) == len(cur.evals[t]) for t in out.evals), f"{what}: an evaluation was shortened")
    require(set(out.evals) <= set(fin), f"{what}: kept an evaluation outside the finished (full_l, full_p) groups",
            extra=sorted(set(out.evals) - set(fin)))
    for key, cands in score.items():
        kept = [flv for flv, (mu, ts) in cands.items() if any(t in out.evals for t in ts)]
        require(len(kept) == 1, f"{what}: (p,l)={key} must keep exactly one full_l, kept {kept}", candidates={k: v[0] for k, v in cands.items()})
        mu, ts = cands[kept[0]]
        require(all(t in out.evals for t in ts), f"{what}: (p,l)={key} kept only part of the winning full_l's evaluations")
        best = max(v[0] for v in cands.values())
        require(close(mu, best), f"{what}: (p,l)={key} kept full_l={kept[0]!r} with mean {mu}, the best is {best}",
                candidates={k: v[0] for k, v in cands.items()})
    if n is None or all(len(r) <= n for r in cur.evals.values()):     # with a real prefix the order matters by definition
        check_best_order_independence(cur, (l, p, "reward", n, full_l, full_p), what)
    return new, out

def run_steps(res, cur, ops):
    """interpret a list of steps; after every step the input must be unchanged and the output becomes the next input"""
    for step, op in enumerate(ops):
        if not cur.evals:
            break
        r = apply_step(res, cur, op, step)
        if r is None:
            continue
        again = read_result(res, f"input of step {step} after the call")
        require_same_model(again, cur, f"step {step} ({op[0]}) changed the Result it was called on")
        res, cur = r
    return res, cur

def run_chain(case):
    res, m0 = build(case)
    cur = read_result(res, "constructed Result")
    run_steps(res, cur, case["ops"])

def draw_where(draw):
    return ["where", draw(st.integers(0, 11)), draw(st.sampled_from(["=", "=", "!=", "in", "in", "<", "<=", ">", ">="])),
            draw(st.integers(0, 30)), draw(st.integers(0, 7))]

@st.composite
def chain_cases(draw, tier):
    best = draw(st.sampled_from([False, False, False, False, False, "lrn", "lrn", "val"]))
    case = draw_result(draw, tier, best=best)
    if best == "lrn" and chance(draw, 1, 2):
        # every evaluation holds the same rewards in another order: exactly equal averages, usually not representable
        base = [draw(st.sampled_from([0, 1, 0, 2, 1])) for _ in range(draw(st.sampled_from([3, 3, 6, 7, 5])))]
        if len(set(base)) == 1: base[-1] = base[0] + 1
        for e in case["evals"]:
            if e[3]: e[3] = list(draw(st.permutations(base)))
        case["perm"] = True
    ops = []
    for i in range(draw(st.sampled_from([1, 2, 2, 3, 3, 4]))):
        kind = draw(st.sampled_from(["where", "where", "fin", "fin", "best"]))
        if best and i == 0: kind = "best"
        if kind == "where":
            ops.append(draw_where(draw))
        elif kind == "fin":
            l, p = draw_lp(draw, case)
            n = draw_n(draw)
            if n == "k": n = draw(st.sampled_from(range(1, 10)))
            if l is None and n is None: n = "min"
            ops.append(["fin", n, l, p])
        else:
            p = draw(st.sampled_from([*case["env_cols"], "environment_id"]))
            if best == "val" or chance(draw, 1, 8):      # pick the best evaluator (per evaluator parameter) instead of the best learner
                l, full_l = draw(st.sampled_from([*case["val_cols"], "evaluator_id"])), "evaluator_id"
                full_p = draw(st.sampled_from([["environment_id", "learner_id"], "environment_id"]))
            else:
                l, full_l = draw(st.sampled_from([*case["lrn_cols"], "learner_id"])), "learner_id"
                full_p = draw(st.sampled_from(["environment_id", "environment_id", ["environment_id", "evaluator_id"]]))
            ops.append(["best", l, p, draw(st.sampled_from([None, None, 1, 2, 3])), full_l, full_p])
    if ops[-1][0] != "fin" and draw(st.booleans()):
        l, p = draw_lp(draw, case, allow_none=False)
        ops.append(["fin", draw(st.sampled_from([None, "min", 2, 3, 4])), l, p])
    case["ops"] = ops
    return case

def chain_nontrivial(case):
    m = model_of_case(case)
    lens = {len(r) for r in m.evals.values()}
    kinds = [o[0] for o in case["ops"]]
    return len(case["ops"]) >= 2 and "fin" in kinds and (len(lens) > 1 or len(m.evals) < len(m.env) * len(m.lrn) * len(m.val))

def chain_classes(case):
    kinds = [o[0] for o in case["ops"]]
    out = [f"steps={len(kinds)}"]
    if case.get("perm"): out.append("best-over-permuted-rewards(exact-ties)")
    if kinds[0] == "best":
        m = model_of_case(case)
        _, l, p, n, full_l, full_p = case["ops"][0]
        if all(c in known_cols(m) for c in spec_cols(l) + spec_cols(p) + spec_cols(full_l) + spec_cols(full_p)):
            fin, score = best_model(m, l, p, n, full_l, full_p)
            if any(len(c) >= 2 for c in score.values()): out.append("best-with-a-choice")
            if any(len(c) >= 2 and any(len(ts) >= 2 for _, ts in c.values()) for c in score.values()): out.append("best-choice-over-several-evaluations")
            if not fin: out.append("best-nothing-finished")
    for k in ("where", "fin", "best"):
        if k in kinds: out.append("has-" + k)
    if "fin" in kinds and kinds.index("fin") > 0: out.append("fin-after-other-step")
    if any(a == b == "fin" for a, b in zip(kinds, kinds[1:])): out.append("fin-after-fin")
    return out

# ====================================================================================== raw_learners / raw_contrast
def ref_moving_average(values, span=None, weights=None):
    n = len(values)
    if weights == "exp":
        alpha = 2 / (1 + span)
        out = []
        for t in range(n):
            ws = [(1 - alpha) ** i for i in range(t + 1)]
            out.append(math.fsum(w * values[t - i] for i, w in enumerate(ws)) / math.fsum(ws))
        return out
    w = list(weights) if weights else [1] * n
    out = []
    for t in range(n):
        lo = 0 if span is None else max(0, t - span + 1)
        out.append(math.fsum(values[i] * w[i] for i in range(lo, t + 1)) / math.fsum(w[lo:t + 1]))
    return out

def nan_sorted(vals):
    """sorted with the undefined values last (NaN breaks the ordering sorted() relies on)"""
    vals = list(vals)
    return sorted(v for v in vals if v == v) + [v for v in vals if v != v]

def final_value(ys, span):
    tail = ys if span is None else ys[-span:]
    return math.fsum(tail) / len(tail)

def pre_ops(q):
    """steps applied before raw_learners: a single where descriptor (older replays) or a list of steps"""
    pre = q.get("pre") or []
    return [pre] if pre and isinstance(pre[0], str) else list(pre)

def model_fin(m, n, l, p):
    """model of where_fin used for class labels only (pair, length, pair again) - never as an oracle"""
    evals = dict(m.evals)
    def pair(ev):
        if l is None: return ev
        _, groups, ok = complete_groups(m, list(ev), l, p)
        return {t: ev[t] for pv in ok for t in groups[pv]}
    evals = pair(evals)
    if n == "min" and evals:
        k = min(len(r) for r in evals.values()); evals = {t: r[:k] for t, r in evals.items()}
    elif isinstance(n, int):
        evals = pair({t: r[:n] for t, r in evals.items() if len(r) >= n})
    return evals

def run_learners(case):
    res, m = build(case)
    cur = read_result(res, "constructed Result")
    q = case["q"]
    if q.get("pre"):          # raw_learners is called on the very object the last step returned (tables are views then)
        res, cur = run_steps(res, cur, pre_ops(q))
        if not cur.evals: return
    _, l, p = fin_args({"n": None, "l": q["l"], "p": q["p"]})
    x = list(q["x"]) if isinstance(q["x"], (list, tuple)) else q["x"]
    span = q["span"]
    if any(c not in known_cols(cur) for c in spec_cols(l) + spec_cols(p) + [c for c in spec_cols(x) if c != "index"]):
        return
    what = f"raw_learners(x={x!r}, l={l!r}, p={p!r}, span={span!r})"
    lens = {t: len(r) for t, r in cur.evals.items()}
    if p is not None:
        _, groups, ok = complete_groups(cur, list(lens), l, p)
        keep = [t for pv in ok for t in groups[pv]]
    else:
        keep = list(lens)
    try:
        table = res.raw_learners(x=x, y="reward", l=l, p=p, span=span)
    except CobaException as e:
        require(not keep, f"{what}: raised CobaException({e}) although complete pairing groups exist", keep=keep)
        return
    require(keep, f"{what}: returned a table although no pairing group is complete", columns=table.columns)
    cut = min(lens[t] for t in keep) if (x == "index" and p is not None) else None
    want = defaultdict(list)          # (level, x) -> values
    for t in keep:
        ys = [r["reward"] for r in cur.evals[t]][:cut]
        lv = cur.spec(l, t)
        if x == "index":
            for i, v in enumerate(ref_moving_average(ys, span), 1):
                want[(lv, i)].append(v)
        else:
            want[(lv, cur.spec(x, t))].append(final_value(ys, span))
    cols = list(table.columns)
    require(cols[0] == "x", f"{what}: first column must be 'x'", columns=cols)
    xs = list(table["x"])
    require(len(set(xs)) == len(xs), f"{what}: duplicate x values", xs=xs)
    require(set(xs) == {k[1] for k in want}, f"{what}: x values differ", got=xs, want=sorted({k[1] for k in want}, key=repr))
    levels = {k[0] for k in want}
    # columns are named by the level value; a 'full_name' component reads '<learner_id>. <family>(<params>)'
    lcols = spec_cols(l)
    def canon_level_from_name(name):
        if "full_name" not in lcols:
            return name
        if isinstance(l, list):
            if not (isinstance(name, tuple) and len(name) == len(lcols)): return None
            parts = []
            for c, v in zip(lcols, name):
                if c == "full_name":
                    ids = [i for i in cur.lrn if isinstance(v, str) and v.startswith(f"{i}. ")]
                    if len(ids) != 1: return None
                    parts.append(("full_name", ids[0]))
                else:
                    parts.append(v)
            return tuple(parts)
        ids = [i for i in cur.lrn if isinstance(name, str) and name.startswith(f"{i}. ")]
        return ("full_name", ids[0]) if len(ids) == 1 else None
    seen = set()
    for name in cols[1:]:
        lv = canon_level_from_name(name)
        require(lv in levels and lv not in seen, f"{what}: unexpected or repeated level column {name!r}", levels=sorted(levels, key=repr))
        seen.add(lv)
        col = table[name]
        require(len(col) == len(xs), f"{what}: column {name!r} has {len(col)} entries for {len(xs)} x values")
        for xv, got in zip(xs, col):
            exp = want.get((lv, xv))
            got = list(got)
            if exp is None:
                require(len(got) == 1 and isinstance(got[0], float) and math.isnan(got[0]),
                        f"{what}: level {name!r} has no evaluation at x={xv!r}, expected the [nan] placeholder", got=got)
                continue
            a, b = nan_sorted(got), nan_sorted(exp)
            require(len(a) == len(b) and all(close(u, v) for u, v in zip(a, b)),
                    f"{what}: level {name!r} x={xv!r}: values differ from the naive per-evaluation averages", got=a, want=b,
                    evaluations={str(t): [r["reward"] for r in cur.evals[t]] for t in keep if cur.spec(l, t) == lv})
    require(seen == levels, f"{what}: level(s) missing from the table", missing=sorted(levels - seen, key=repr))
    after = read_result(res, "input after raw_learners")
    require_same_model(after, cur, "raw_learners changed the Result it was called on")
    if q.get("contrast"):
        run_contrast(res, cur, q, what)

def run_contrast(res, cur, q, _):
    """raw_contrast(l1,l2,x,l='learner_id',p='environment_id') where every (environment, learner) has one evaluation."""
    span = q["span"]
    x = q["contrast"]["x"]
    lids = sorted(cur.lrn)
    l1, l2 = pick(lids, q["contrast"]["a"]), pick(lids, q["contrast"]["b"])
    per = Counter((t[0], t[1]) for t in cur.evals)
    if l1 == l2 or any(k > 1 for k in per.values()):
        return
    what = f"raw_contrast({l1},{l2},x={x!r},span={span!r})"
    want = defaultdict(list)
    for e in sorted(cur.env):
        t1 = [t for t in cur.evals if t[0] == e and t[1] == l1]
        t2 = [t for t in cur.evals if t[0] == e and t[1] == l2]
        if not t1 or not t2: continue
        y1 = [r["reward"] for r in cur.evals[t1[0]]]; y2 = [r["reward"] for r in cur.evals[t2[0]]]
        if x == "index":
            for i, (u, v) in enumerate(zip(ref_moving_average(y1, span), ref_moving_average(y2, span)), 1):
                want[i].append((u, v))
        else:
            want[e].append((final_value(y1, span), final_value(y2, span)))
    try:
        table = res.raw_contrast(l1, l2, x=x, y="reward", l="learner_id", p="environment_id", span=span)
    except CobaException as e:
        require(not want, f"{what}: raised CobaException({e}) although pairs exist", want=dict(want))
        return
    require(bool(want), f"{what}: returned a table although no environment has both learners")
    cols = list(table.columns)
    require(len(cols) == 2 and cols[0] == "x", f"{what}: columns", columns=cols)
    xs, ys = list(table["x"]), list(table[cols[1]])
    require(xs == sorted(want), f"{what}: x values differ", got=xs, want=sorted(want))
    for xv, got in zip(xs, ys):
        key = lambda uv: tuple((1, 0.0) if w != w else (0, w) for w in uv)
        a, b = sorted(got, key=key), sorted(want[xv], key=key)
        require(len(a) == len(b) and all(close(u[0], v[0]) and close(u[1], v[1]) for u, v in zip(a, b)),
                f"{what}: pairs at x={xv!r} differ from the naive computation", got=a, want=b)

def draw_long_case(draw, tier):
    """a small complete Result in which some evaluations have 1025..3000 interactions (never a multiple of 512): the final
    averages then run over more than a thousand values; x is a parameter / id column so that the cost stays linear"""
    nE, nL = draw(st.sampled_from([2, 1, 3])), draw(st.sampled_from([2, 1]))
    names = lambda pools: tuple(draw(st.sampled_from(pool)) for pool in pools)
    env_ids, env_cols, env_rows = param_table(draw, nE, names(ENV_NAMES), False)
    lrn_ids, lrn_cols, lrn_rows = param_table(draw, nL, names(LRN_NAMES), False)
    evals, any_long = [], False
    for ei in range(nE):
        for li in range(nL):
            if chance(draw, 1, 2) or (not any_long and ei == nE - 1 and li == nL - 1):
                n = draw(st.integers(1025, 3000 if tier == "thorough" else 2100))
                if n % 512 == 0: n += 1
                any_long = True
            else:
                n = draw(st.sampled_from(range(1, 41)))
            evals.append([ei, li, 0, {"gen": [n, draw(st.sampled_from(range(1, 8))), draw(st.sampled_from(range(6))), draw(st.sampled_from([7, 13, 31]))]}])
    case = {"env_ids": env_ids, "env_cols": env_cols, "env_rows": env_rows, "lrn_ids": lrn_ids, "lrn_cols": lrn_cols, "lrn_rows": lrn_rows,
            "val_ids": [draw(st.sampled_from(range(10)))], "val_cols": [], "val_rows": [[]], "evals": evals,
            "build": draw(st.sampled_from(["rows", "trx"])), "long": True}
    if case["build"] == "trx": case["sparse"] = False
    l = draw(st.sampled_from(["learner_id", "full_name", ["learner_id"]]))
    p = draw(st.sampled_from(["environment_id", "environment_id", ["environment_id"], None]))
    cands = ["environment_id", *env_cols, "learner_id", *lrn_cols]
    x = draw(st.sampled_from(cands)) if chance(draw, 2, 3) else list(draw(st.permutations(cands)))[:draw(st.sampled_from([1, 2]))]
    case["q"] = {"l": l, "p": p, "x": x, "span": draw(st.sampled_from([None, None, 1100, 1, 1500, 5000, 2]))}
    if p is not None and chance(draw, 1, 3):
        case["q"]["pre"] = [["fin", None, l, p]]
    return case

@st.composite
def learner_cases(draw, tier):
    if chance(draw, 1, 40 if tier == "quick" else 60):
        return draw_long_case(draw, tier)
    case = draw_result(draw, tier)
    l, p = draw_lp(draw, case, allow_none=False)
    if chance(draw, 1, 5): l = "full_name"
    if chance(draw, 1, 10): p = None
    xkind = draw(st.sampled_from(["index", "index", "index", "param", "param"]))
    if xkind == "index":
        x = "index"
    else:
        cands = ["environment_id", "learner_id", "evaluator_id", *case["env_cols"], *case["lrn_cols"], *case["val_cols"]]
        k = draw(st.sampled_from([0, 0, 1, 2]))
        x = draw(st.sampled_from(cands)) if k == 0 else list(draw(st.permutations(cands)))[:k]
    span = draw(st.sampled_from([None, None, 1, 2, 3, 4, 9]))
    # steps before raw_learners; the "same" kinds pair on exactly the l and p raw_learners is then asked for, without n,
    # so a Result that remembers having been paired must still be cut to the shortest evaluation for x='index'
    pre_kind = draw(st.sampled_from(["none", "none", "none", "fin-same", "where", "fin-same", "fin-other", "fin-same-best", "none"]))
    if p is None and pre_kind.startswith("fin-same"): pre_kind = "where"
    pre = []
    if pre_kind == "where":
        pre = [draw_where(draw)]
    elif pre_kind == "fin-other":
        l2, p2 = draw_lp(draw, case)
        n2 = draw_n(draw)
        if n2 == "k": n2 = draw(st.sampled_from(range(1, 10)))
        if l2 is None and n2 is None: n2 = "min"
        pre = [["fin", n2, l2, p2]]
    elif pre_kind.startswith("fin-same"):
        if chance(draw, 3, 4): x = "index"
        pre = [["fin", None, l, p]]
        if pre_kind == "fin-same-best":
            pre.append(["best", draw(st.sampled_from([*case["lrn_cols"], "learner_id"])), draw(st.sampled_from([*case["env_cols"], "environment_id"])),
                        draw(st.sampled_from([None, 2])), "learner_id", "environment_id"])
    case["q"] = {"l": l, "p": p, "x": x, "span": span}
    if pre: case["q"]["pre"] = pre
    if chance(draw, 1, 4):
        case["q"]["contrast"] = {"a": draw(st.sampled_from(range(4))), "b": draw(st.sampled_from(range(4))), "x": draw(st.sampled_from(["index", "environment_id"]))}
    # undefined rewards: NaN must propagate into every average whose window holds it. Not combined with a real trailing
    # window over x='index' (the running-sum implementation stays NaN after the value left the window, see ASSUMPTIONS)
    # nor with where_best (ranking NaN means is not defined)
    index_axis = x == "index" or case["q"].get("contrast", {}).get("x") == "index"
    if chance(draw, 1, 4) and (span in (None, 1) or not index_axis) and pre_kind != "fin-same-best":
        slots = [(i, k) for i, e in enumerate(case["evals"]) for k in range(len(e[3]))]
        for _ in range(draw(st.sampled_from([1, 2, 3]))):
            i, k = slots[draw(st.integers(0, len(slots) - 1))]
            case["evals"][i][3][k] = float("nan")
    return case

def has_nan(case):
    return any(isinstance(y, float) and y != y for e in case["evals"] if not isinstance(e[3], dict) for y in e[3])

def learners_profile(case):
    m = model_of_case(case)
    q = case["q"]
    for op in pre_ops(q):      # labels only: where and where_fin are modelled, where_best is not
        if op[0] == "where":
            col, opname, arg, _ = resolve_where(m, op)
            m.evals = where_model(m, col, opname, arg)
        elif op[0] == "fin":
            n2, l2, p2 = fin_args({"n": op[1], "l": op[2], "p": op[3]})
            if all(c in known_cols(m) for c in spec_cols(l2) + spec_cols(p2)):
                m.evals = model_fin(m, n2, l2, p2)
    _, l, p = fin_args({"n": None, "l": q["l"], "p": q["p"]})
    lens = {t: len(r) for t, r in m.evals.items()}
    if p is None or any(c not in known_cols(m) for c in spec_cols(l) + spec_cols(p)):
        return {"keep": len(lens), "groups": len(lens), "dropped": 0, "ragged": len(set(lens.values())) > 1}
    _, groups, ok = complete_groups(m, list(lens), l, p)
    keep = [t for pv in ok for t in groups[pv]]
    return {"keep": len(keep), "groups": len(groups), "dropped": len(groups) - len(ok), "ragged": len({lens[t] for t in keep}) > 1}

def learners_nontrivial(case):
    f = learners_profile(case)
    return f["keep"] >= 2 and f["groups"] >= 2 and (f["dropped"] > 0 or f["ragged"])

def learners_classes(case):
    f, q = learners_profile(case), case["q"]
    out = ["x=index" if q["x"] == "index" else ("x=list" if isinstance(q["x"], (list, tuple)) else "x=column"),
           "span=None" if q["span"] is None else ("span=1" if q["span"] == 1 else "span>1"),
           "table" if f["keep"] else "no-complete-group"]
    if q["p"] is None: out.append("p=None")
    if q["l"] == "full_name": out.append("l=full_name")
    if f["dropped"] and f["keep"]: out.append("some-groups-dropped")
    if f["ragged"]: out.append("kept-evaluations-ragged")
    if "contrast" in q: out.append("with-raw_contrast")
    kinds = [op[0] for op in pre_ops(q)]
    if "where" in kinds: out.append("after-where-step")
    if "fin" in kinds:
        same = any(op[0] == "fin" and op[1] is None and op[2] == q["l"] and op[3] == q["p"] for op in pre_ops(q))
        out.append("after-where_fin(None,same l,same p)" if same else "after-where_fin(other)")
        if same and f["ragged"] and q["x"] == "index" and f["keep"]: out.append("same-lp-where_fin-then-index-on-ragged")
    if "best" in kinds: out.append("after-where_best")
    if case.get("long"):
        out.append("evaluation-longer-than-1024")
        if q["span"] is None or q["span"] > 1024: out.append("average-over-more-than-1024-values")
    xcols = spec_cols(q["x"])
    if any("index" in c and c != "index" for c in xcols):
        out.append("x-names-a-parameter-containing-'index'" + ("(string)" if isinstance(q["x"], str) else "(list)"))
    if has_nan(case):
        out.append("nan-rewards")
        if q["x"] != "index" and q["span"] != 1: out.append("nan-rewards-final-average")
    return out

# ====================================================================================== moving_average
def run_mavg(case):
    vals, span, weights = list(case["values"]), case["span"], case["weights"]
    if case.get("as_tuple"): vals = tuple(vals)
    w = weights if (weights is None or weights == "exp") else list(weights)
    got = list(moving_average(vals, span, w))
    want = ref_moving_average(list(vals), span, w)
    require(len(got) == len(want), "moving_average: wrong number of values", values=vals, span=span, weights=weights, got=got)
    for i, (a, b) in enumerate(zip(got, want)):
        require(close(a, b), f"moving_average: position {i} differs from the textbook definition", values=vals, span=span,
                weights=weights, got=got, want=want)
    require(list(vals) == list(case["values"]), "moving_average changed its input")

@st.composite
def mavg_cases(draw, tier):
    n = draw(st.integers(0, 14 if tier == "quick" else 40))
    ints = draw(st.booleans())
    elem = st.integers(-9, 9) if ints else st.floats(-100, 100, allow_nan=False, width=32)
    values = [draw(elem) for _ in range(n)]
    wk = draw(st.sampled_from(["none", "none", "exp", "explicit", "explicit"]))
    if wk == "exp":
        span, weights = draw(st.integers(1, n + 2)), "exp"
    else:
        span = draw(st.sampled_from([None, "k", "k", "k"]))
        if span == "k": span = draw(st.integers(1, n + 2))
        weights = None if wk == "none" else [draw(st.sampled_from([0.1, 0.5, 1, 1, 2, 3, 10])) if draw(st.booleans()) else
                                             draw(st.floats(0.125, 10, allow_nan=False, width=32)) for _ in range(n)]
    return {"values": values, "span": span, "weights": weights, "as_tuple": draw(st.booleans())}

def mavg_nontrivial(case):
    n = len(case["values"])
    return n >= 3 and (case["weights"] is not None or (case["span"] is not None and 1 < case["span"] < n))

def mavg_classes(case):
    n, span, w = len(case["values"]), case["span"], case["weights"]
    out = ["weights=" + ("none" if w is None else ("exp" if w == "exp" else "explicit"))]
    if span is None: out.append("span=None")
    elif span == 1: out.append("span=1")
    elif span < n: out.append("window")
    elif span == n: out.append("span=len")
    else: out.append("span>len")
    if n == 0: out.append("empty")
    return out

# ====================================================================================== known findings
def classify(case, exc):
    """no open finding is proposed for C18 (both defects found are repaired by small patches)"""
    return None

SUBCHECKS = [
    Sub(name="fin", run=run_fin, strategy=fin_cases, nontrivial=fin_nontrivial, classes=fin_classes, classify=classify,
        quick=3000, thorough=120000, quick_shards=3,
        what="generated Result + one where_fin/filter_fin(n,l,p): kept groups == exactly-one-evaluation-per-level groups, lengths untouched / min / n, unchanged prefixes, tables consistent both ways, input untouched"),
    Sub(name="chain", run=run_chain, strategy=chain_cases, nontrivial=chain_nontrivial, classes=chain_classes, classify=classify,
        quick=1500, thorough=60000, quick_shards=2,
        what="chains of where / where_best / where_fin; after every step the tables are re-read and the step is judged against a row-by-row model (where: filter; where_best: one best full_l per (p,l); where_fin: the fin oracle)"),
    Sub(name="learners", run=run_learners, strategy=learner_cases, nontrivial=learners_nontrivial, classes=learners_classes, classify=classify,
        quick=2000, thorough=80000, quick_shards=2,
        what="raw_learners(x,l,p,span) (+ raw_contrast on unambiguous inputs), on a fresh Result or behind where / where_fin(None,same l,p) / where_best steps, some NaN rewards, vs naive per-evaluation progressive / windowed / final means, multisets per (level,x), tol 1e-9"),
    Sub(name="mavg", run=run_mavg, strategy=mavg_cases, nontrivial=mavg_nontrivial, classes=mavg_classes,
        quick=3000, thorough=150000, quick_shards=1,
        what="moving_average(values, span, weights) vs textbook cumulative / trailing-window / weighted / ewm(adjust=True) definitions, tol 1e-9"),
]
