"""C15 Every supported prediction format is understood the same way.

A scripted learner double answers `predict` in exactly one of the documented layouts (format x kwargs x call
shape) and always names one of the *offered action objects* (or uses the documented dict hints where the bare value
could be read two ways).  The oracle states what `SafeLearner(double, seed).predict` must hand to an evaluator:
the named action, the stated probability, the kwargs - and what `learn` must then receive.  PMF answers are
checked for support, exact mass, reproducibility from the seed and (sub-check `seeds`) dependence on the seed.
Nothing of SafeLearner's own parsing is re-implemented: the expected triple is known because the double was told
what to answer.
"""
import copy, types, collections
from collections import abc
from hypothesis import strategies as st

from vlib.core import Sub
from vlib.util import Violation, require, use_repo
use_repo()
from coba.safety import SafeLearner
from coba.exceptions import CobaException
from coba.context import CobaContext, NullLogger
from coba.environments import Batch
from coba.evaluators import SequentialCB, SequentialIGL
from coba.primitives import is_batch

ID = "C15"
LEVEL = "exploration"
DESIGN_REF = "DESIGN.md section 6, C15 (+ generator constraints of section 4.1)"
RULE = ("case = a grid cell (format in A/AP/PM/{'action'}/{'action_prob'}/{'pmf'} x kwargs yes/no x call shape single/"
        "row-major/column-major/per-row fallback x batch size 1..4 x action type x number of actions 1..4) plus 48 small "
        "integers from which contexts, action values, chosen indices, probabilities, PMFs, kwargs payloads and the seed are "
        "derived; sub-check 'grid' enumerates every cell with integers computed from the cell index, sub-check 'sampled' "
        "draws cell and integers with Hypothesis, sub-check 'seeds' draws long PMF runs, sub-check 'evaluator' runs a PMF double through "
        "SequentialCB(seed=s) under generated experiment seeds; a case is non-trivial when the "
        "per-row answer has two elements, or the batch is square (batch size == answer width), or the actions contain 0/1; "
        "distinct = distinct canonical JSON of the case")
ASSUMPTIONS = [
    "what an inner SafeLearner found out about its learner (batch support, layout) in earlier calls of another batchedness must not change how a SafeLearner built around it calls the learner",
    "SafeLearner decides per method whether a learner understands batches: in the fallback shape the double refuses batches in predict and learn, in predict only, or in learn only; a method that takes batches must get one call per batch, a refusing one one call per row",
    "evaluator sub-check: a quarter of the cases go through SequentialIGL(seed=s) over un-batched grounded interactions (it wraps its own SequentialCB): its PMF draws must be a function of its own seed as well; RejectionCB is not covered (its seed drives rejection sampling; it predicts only for ope='dm'/'dr', which need VowpalWabbit)",
    "action sets have no duplicates, except (DUPLICATE_MEMBERS) PMF cells over list / sparse-dict actions, which sometimes offer two equal members as distinct objects: the reported probability must then be the mass at the drawn position when the returned object identifies it, and otherwise the non-zero mass of some equal member",
    "string actions include two-character members whose first character is an offered action as well; per-row kwargs of one row-major batch share their keys but not their insertion order",
    "evaluator sub-check: learn modes on / ips / off / None on simulated+logged interactions (dr and dm need VowpalWabbit); learn must receive the played action, the learner's probability and its kwargs (on, ips) or the logged triple without kwargs (off)",
    "PMFs are the uniform one, sixteenths, weights normalised once (sum 1 only up to rounding) or masses rounded to four decimals (sum within SafeLearner's own acceptance tolerance of .001, checked in possible_pmf); the reported probability must equal the stated mass bit for bit in all of them",
    "batched calls without contexts pass context=None for the whole batch (what the evaluators do for environments without 'context'); the double then gives every row the same answer, since it cannot tell rows apart",
    "while HINTED_COL_KWARGS_DICT_ONLY is set (open defect, proposed_fixes/C15/0003) the column-major dict-hinted layout is only generated with dict/OrderedDict kwargs; every other layout gets all five Mapping types",
    "kwargs payloads are returned as dict, types.MappingProxyType, collections.ChainMap, collections.OrderedDict or a user-defined collections.abc.Mapping (the hint wrapper itself is always a plain dict); learn is expected to receive their items as keyword arguments",
    "a double that handles batches must be called once per batch with the batched arguments (plus at most SafeLearner's one-row layout probe after the first call); half of them are batch-only and raise on an un-batched row",
    "a SafeLearner built around another SafeLearner unwraps the inner learner and seeds its own generator: its draws equal those of a fresh SafeLearner(learner, seed) whatever the inner wrapper's seed and earlier use (evaluators wrap whatever they are given)",
    "evaluator sub-check: SequentialCB(seed=s) is expected to seed its SafeLearner with s itself (docstring: 'seed: Determine which action is played when learners return an action PMF'), and with CobaContext.store['experiment_seed'] when s is None; with neither, draws are time-seeded and only their validity is checked",
    "PMF entries are fresh float objects (never the same object as an offered action); integer one-hot PMFs such as [1,0] are generated for un-batched calls only, where SafeLearner hands out float copies of the actions 0 and 1",
    "bare (un-hinted) answers are only used where they can be read one way: a bare sparse-dict action, a dense action of length 1 and a PMF over a single action use the documented dict hints instead",
    "a CobaException that asks for format hints counts as correct behaviour for un-hinted answers (never for hinted ones)",
    "doubles that cannot batch raise on batched arguments in predict and in learn; they never return a wrong-shaped answer",
    "all rows of one batch have the same number of actions; action sets have no duplicates; kwargs keys are plain identifiers other than the hint names",
    "column-major layouts are the ones coba's own tests name: {'hint':[row values]}, [A-column,P-column], [mass columns per action], each optionally followed by a kwargs mapping of per-row lists; a bare action column is the same list as the row-major answer",
    "two different seeds are taken from 0..1000 (0 and 0.0 included); a run of >= 40 uniform draws over >= 2 actions that is identical for two seeds, or constant over all calls, is treated as a violation (chance < 1e-10 per case)",
]

CobaContext.logger = NullLogger()

FORMATS = ["A", "AP", "PM", "hA", "hAP", "hPM"]
SHAPES = ["single", "row", "col", "fallback"]
ATYPES = ["int01", "int", "float01", "str", "onehot", "tuple", "list", "sparse"]
NS = [1, 2, 3, 4]
BS = [1, 2, 3, 4]
N_INTS = 48

class NoBatch(Exception):
    """raised by doubles that cannot handle batched arguments"""

class NoRows(Exception):
    """raised by batch-only doubles when they are handed a single un-batched row"""

class UserMapping(abc.Mapping):
    """a small user-defined read-only mapping"""
    def __init__(self, data): self._data = dict(data)
    def __getitem__(self, key): return self._data[key]
    def __iter__(self): return iter(self._data)
    def __len__(self): return len(self._data)
    def __repr__(self): return f"UserMapping({self._data!r})"

KWTYPES = ["dict", "mappingproxy", "chainmap", "ordereddict", "usermapping"]

# PMF cells over list/sparse actions sometimes offer two equal members (distinct objects). DESIGN section 4 keeps duplicates out of
# action *sets*; they are generated here only for PMF answers, where the position - not the value - carries the mass. Set to False
# to restore the duplicate-free domain.
DUPLICATE_MEMBERS = True

# Open defect (proposed_fixes/C15/0003-*.patch): the column-major pair [{hint: column}, kwargs] is only recognised when the
# kwargs are a dict (subclass). Until that patch is applied the doubles answer that one layout with dict/OrderedDict kwargs
# only; set this to False afterwards (the check is then quiet on the patched tree and fires on the unpatched one).
HINTED_COL_KWARGS_DICT_ONLY = False

def as_mapping(kind, d):
    """the kwargs payload in one of the Mapping types a learner may legitimately return"""
    if kind == "mappingproxy": return types.MappingProxyType(d)
    if kind == "chainmap": return collections.ChainMap(d)
    if kind == "ordereddict": return collections.OrderedDict(d)
    if kind == "usermapping": return UserMapping(d)
    return d

# ----------------------------------------------------------------------------------------- value pools
POOL = {
    "int01":   [0, 1, 2, 3, 5],
    "int":     [2, 3, 5, 7, -4, 10],
    "float01": [0.25, 0.5, 0.75, 0.0, 1.0, 0.125],
    "str":     ["N", "NE", "E", "ES", "S", "SN", "xyz"],    # 'NE'[0] is the offered action 'N' ...
    "tuple":   [(0.5, 0.5), (0.25, 0.75), (1.0, 2.0, 3.0), (0.5, 0.25, 0.25), (2, 7), (0.0, 1.0)],
    "list":    [[1, 0, 0], [0, 1, 0], [0.5, 0.5], [1, 0], [0.25, 0.25, 0.5], [3, 4]],
    "sparse":  [{"a": 1}, {"b": 2, "c": 1}, {"a": 1, "b": 0.5}, {0: 1.0}, {"pm": 1, "q": 2, "r": 3}, {"x": 0.5, "y": 0.5}],
}
PROBS = [1.0, 0.5, 0.25, 0.125, 1 / 3, 0.75, 1, 0.1]
KWVALS = [0, 1, "s", None, [1, 2], {"z": 1}, 2.5, (1, "t")]
KWKEYS = [["k"], ["k", "m"], ["info", "k"], []]
CTXKINDS = ["int", "str", "tuple", "dict", "none"]

class Ints:
    """a cursor over the integers of a case; wraps around (the values are only a source of variety)"""
    def __init__(self, ints):
        self.ints, self.i = list(ints) or [0], 0
    def __call__(self, mod):
        v = self.ints[self.i % len(self.ints)]
        self.i += 1
        return v % mod

def onehots(n, width):
    return [tuple(1 if j == i else 0 for j in range(width)) for i in range(n)]

def action_set(atype, n, nx):
    """n distinct actions of the given type (plain data; run() copies them so every call offers fresh objects)"""
    if atype == "onehot":
        width = max(2, n)
        acts = onehots(n, width)
        rot = nx(n)
        return acts[rot:] + acts[:rot]
    pool = POOL[atype]
    start = nx(len(pool))
    acts = [pool[(start + i) % len(pool)] for i in range(n)]
    if atype == "int01" and not any(a in (0, 1) for a in acts):
        acts[nx(n)] = nx(2)
        if len(set(acts)) < len(acts):  # the replacement collided with an existing value
            acts = [0, 1, 2, 3][:n]
    return acts

def pmf_for(n, nx, choice):
    """the uniform pmf, sixteenths (exact sum), or masses whose sum is 1 only approximately; zero masses occur"""
    if nx(4) == 0:
        return [1 / n] * n
    left, out = 16, []
    for j in range(n - 1):
        m = nx(left + 1)
        out.append(m); left -= m
    out.append(left)
    rot = nx(n)
    out = out[rot:] + out[:rot]
    # half of these are re-expressed so that the masses do NOT add up to exactly 1.0 in floating point (what real learners
    # return); the selector is computed from the weights themselves so that no further integer is used up
    sel = (sum((i + 1) * m for i, m in enumerate(out)) + rot) % 4
    if sel == 2:      # arbitrary weights normalised once: the sum is 1 only up to rounding (zero masses stay zero)
        w = [m * (i + 3) for i, m in enumerate(out)]
        return [x / sum(w) for x in w]
    if sel == 3:      # masses rounded to four decimals: the sum is off by up to a few 1e-4, inside SafeLearner's .001 tolerance
        return [round(m / 16 * 0.9999, 4) for m in out]
    return [m / 16 for m in out]

def context_for(kind, rid):
    if kind == "int": return rid
    if kind == "str": return f"c{rid}"
    if kind == "tuple": return (rid, 0.5)
    if kind == "dict": return {"id": rid, "f": 1.5}
    return None

def build(case):
    """Expand a case into its calls: list of calls, each a list of row dicts (ctx, actions, choice, p, pmf, kw)."""
    cell = case["cell"]
    nx = Ints(case["ints"])
    fmt, shape, atype, n = cell["fmt"], cell["shape"], cell["atype"], cell["n"]
    b = 1 if shape == "single" else cell["b"]
    ncalls = cell.get("calls", 3)
    ctxkind = CTXKINDS[nx(len(CTXKINDS))]
    no_ctx = shape != "single" and ctxkind == "none"     # a batched environment without contexts: context=None for the whole batch
    keys = KWKEYS[nx(len(KWKEYS))] if cell["kw"] else None
    vary = nx(2) == 1         # action sets change from row to row / call to call
    base = action_set(atype, n, nx)
    calls, rid = [], 0
    for c in range(ncalls):
        rows = []
        for r in range(b):
            acts = action_set(atype, n, nx) if vary else base
            choice = nx(n)
            row = {"ctx": context_for(ctxkind, rid), "actions": acts, "choice": choice, "p": PROBS[nx(len(PROBS))],
                   "pmf": pmf_for(n, nx, None) if not cell.get("ipmf") else [1 if j == choice else 0 for j in range(n)],
                   "kw": None if keys is None else {k: KWVALS[nx(len(KWVALS))] for k in keys},
                   "reward": nx(7) / 4}
            rows.append(row); rid += 1
        calls.append(rows)
    if no_ctx:
        # without a context the double cannot tell rows apart: it gives every row the same answer (see FmtLearner._plan)
        first = calls[0][0]
        for call in calls:
            for row in call:
                for k in ("choice", "p", "pmf", "kw"): row[k] = copy.deepcopy(first[k])
    seed = 1 + nx(1000)
    plan = {"calls": calls, "seed": seed, "ctxkind": ctxkind, "kwtype": KWTYPES[nx(len(KWTYPES))], "batch_only": nx(2) == 1}
    if DUPLICATE_MEMBERS and fmt in ("PM", "hPM") and n >= 2 and atype in ("list", "sparse") and nx(3) == 0:
        # an action list holding two EQUAL members (distinct objects, see drive): a PMF gives each position its own mass
        plan["duplicates"] = True
        for call in calls:
            for row in call:
                acts = list(row["actions"]); acts[1] = copy.deepcopy(acts[0]); row["actions"] = acts
    plan["fallback_kind"] = ["both", "predict", "learn"][nx(3)]
    return plan

# ----------------------------------------------------------------------------------------- which answers need hints
def forced_hint(fmt, atype, n, actions):
    """Bare answers that the format itself lets one read two ways use the documented hints (DESIGN 4.1)."""
    if fmt == "A" and atype == "sparse": return "hA"
    if fmt == "A" and any(hasattr(a, "__len__") and not isinstance(a, str) and len(a) == 1 for a in actions): return "hA"
    if fmt == "PM" and n == 1: return "hPM"
    return fmt

# ----------------------------------------------------------------------------------------- the learner double
class FmtLearner:
    """Answers in one fixed layout. The answer for a row is looked up by the row's context (batched shapes; contexts are
    distinct) or by the call counter (single shape), so SafeLearner's layout probe gets a consistent answer."""
    def __init__(self, cell, plan, batch_ok):
        self.cell, self.batch_ok = cell, batch_ok
        # which methods take batches: both or none, except for the fallback shape where a learner may refuse batches in
        # predict only, in learn only, or in both (SafeLearner decides per method)
        kind = plan.get("fallback_kind", "both") if (cell["shape"] == "fallback" and not batch_ok) else "both"
        self.pred_ok = batch_ok or kind == "learn"       # 'learn': only learn refuses batches
        self.learn_ok = batch_ok or kind == "predict"    # 'predict': only predict refuses batches
        self.kwtype = plan.get("kwtype", "dict")
        # a batch-aware double is either dual-mode or batch-only (it then refuses single un-batched rows)
        self.batch_only = bool(batch_ok and cell["shape"] in ("row", "col") and plan.get("batch_only"))
        self.pcalls, self.lcalls = [], []     # how predict / learn were called: number of rows of a batched call, None for an un-batched call
        self.by_ctx = {} if plan["ctxkind"] != "none" else None
        self.seq = [row for call in plan["calls"] for row in call]
        if self.by_ctx is not None:
            for row in self.seq: self.by_ctx[repr(row["ctx"])] = row
        self.counter = 0
        self.named = []       # (the object named as action | None for pmfs) per answered row, in answer order
        self.learned = []     # rows received by learn: (ctx, action, reward, prob, kwargs)
        self.learn_calls = 0

    def _plan(self, ctx):
        if self.by_ctx is not None:
            return self.by_ctx[repr(ctx)]
        if self.cell["shape"] != "single":
            return self.seq[0]          # batched calls without contexts: one answer for every row
        row = self.seq[self.counter % len(self.seq)]
        self.counter += 1
        return row

    def _piece(self, ctx, actions):
        """-> (fmt actually used, core value(s), kwargs or None)"""
        row = self._plan(ctx)
        fmt = forced_hint(self.cell["fmt"], self.cell["atype"], self.cell["n"], actions)
        a = actions[row["choice"] % len(actions)]           # the offered object itself
        pmf = [m * 1.0 for m in row["pmf"]]                 # fresh float objects
        if self.cell.get("ipmf"): pmf = list(row["pmf"])    # un-batched calls only: an integer one-hot PMF, as coba's own test learners return
        kw = None if row["kw"] is None else copy.deepcopy(row["kw"])
        return fmt, a, row["p"], pmf, kw

    def predict(self, context, actions):
        batched = is_batch(context) or is_batch(actions)
        if batched and not self.pred_ok:
            raise NoBatch("this learner does not understand batches")
        nrows = (len(actions) if is_batch(actions) else len(context)) if batched else None
        self.pcalls.append(nrows)
        if not batched:
            if self.batch_only: raise NoRows("this learner only understands batches")
            fmt, a, p, pmf, kw = self._piece(context, actions)
            if kw is not None: kw = as_mapping(self.kwtype, kw)
            core = {"A": a, "AP": (a, p), "PM": pmf, "hA": {"action": a}, "hAP": {"action_prob": (a, p)}, "hPM": {"pmf": pmf}}[fmt]
            if kw is None: return core
            if fmt == "AP": return (a, p, kw)
            return (core, kw)
        ctxs = list(context) if is_batch(context) else [context] * nrows     # no contexts: None for the whole batch
        pieces = [self._piece(x, A) for x, A in zip(ctxs, actions)]
        fmt = pieces[0][0]
        kws = [pc[4] for pc in pieces]
        has_kw = kws[0] is not None
        if self.cell["shape"] == "col":
            kwtype = self.kwtype
            if HINTED_COL_KWARGS_DICT_ONLY and fmt.startswith("h") and kwtype not in ("dict", "ordereddict"):
                kwtype = "ordereddict"
            kwcol = as_mapping(kwtype, {k: [kw[k] for kw in kws] for k in kws[0]}) if has_kw else None
            A = [pc[1] for pc in pieces]; P = [pc[2] for pc in pieces]; M = [pc[3] for pc in pieces]
            if fmt == "A":   body = [A]
            if fmt == "AP":  body = [A, P]
            if fmt == "PM":  body = [[m[j] for m in M] for j in range(len(M[0]))]
            if fmt == "hA":  body = [{"action": A}]
            if fmt == "hAP": body = [{"action_prob": list(zip(A, P))}]
            if fmt == "hPM": body = [{"pmf": M}]
            if has_kw: return body + [kwcol]
            return body[0] if len(body) == 1 else body
        out = []
        for r, (fmt, a, p, pmf, kw) in enumerate(pieces):
            core = {"A": a, "AP": (a, p), "PM": pmf, "hA": {"action": a}, "hAP": {"action_prob": (a, p)}, "hPM": {"pmf": pmf}}[fmt]
            if kw is not None and r % 2 == 1: kw = dict(reversed(list(kw.items())))     # same keys, another insertion order
            if kw is not None: kw = as_mapping(self.kwtype, kw)
            if kw is None: out.append(core)
            elif fmt == "AP": out.append((a, p, kw))
            else: out.append((core, kw))
        return out

    def learn(self, context, action, reward, probability, **kwargs):
        self.learn_calls += 1
        if is_batch(context) or is_batch(action) or is_batch(reward):
            if not self.learn_ok:
                raise NoBatch("this learner does not understand batches")
            nrows = len(reward)
            self.lcalls.append(nrows)
            ctxs = list(context) if is_batch(context) else [context] * nrows
            probs = list(probability) if probability is not None else [None] * nrows
            for i in range(nrows):
                self.learned.append((ctxs[i], action[i], reward[i], probs[i], {k: v[i] for k, v in kwargs.items()}))
        else:
            self.lcalls.append(None)
            if self.batch_only: raise NoRows("this learner only understands batches")
            self.learned.append((context, action, reward, probability, kwargs))

# ----------------------------------------------------------------------------------------- the oracle
def eq(a, b):
    """value equality that does not confuse True/1 and tolerates coba's int->float copies of 0/1"""
    if isinstance(a, bool) != isinstance(b, bool): return False
    return a == b

def is_hint_request(exc):
    return isinstance(exc, CobaException) and ("format" in str(exc) or "hints" in str(exc))

def pre_use(inner, cell, call, times, other=False, double=None):
    """predict `times` times through an (inner) SafeLearner with the data of one call: uses up draws of its random stream.
    With `other` the earlier use has the other batchedness (an un-batched row for a learner later fed batches, a one-row
    batch for a learner later fed single rows) - what the wrapper learnt then must not leak into the wrapper under test."""
    for _ in range(times):
        acts = [copy.deepcopy(r["actions"]) for r in call]
        ctxs = [copy.deepcopy(r["ctx"]) for r in call]
        batched = cell["shape"] != "single"
        if other and not (batched and double is not None and double.batch_only): batched = not batched
        if not batched: inner.predict(ctxs[0], acts[0])
        elif cell["shape"] == "single": inner.predict(Batch.List(ctxs[:1]), Batch.List(acts[:1]))
        else: inner.predict(Batch.List(ctxs) if any(c is not None for c in ctxs) else None, Batch.List(acts))

def wrapped(learner, cell, plan, wrap):
    """what evaluators may be handed: an already wrapped, possibly already used SafeLearner"""
    inner = SafeLearner(learner, wrap["inner_seed"])
    pre_use(inner, cell, plan["calls"][0], wrap["pre"], wrap.get("other", False), learner)
    learner.pcalls.clear()       # the call-pattern oracle looks at the calls made through the wrapper under test only
    return inner

def drive(case, plan, batch_ok, seed, shape=None, wrap=None):
    """Run the whole call sequence through SafeLearner; returns (rows, double) with rows = per-row triples and
    expectations, or raises Violation. With `wrap` the SafeLearner under test is built around another SafeLearner."""
    cell = dict(case["cell"])
    if shape: cell["shape"] = shape
    learner = FmtLearner(cell, plan, batch_ok)
    safe = SafeLearner(wrapped(learner, cell, plan, wrap) if wrap else learner, seed)
    out = []
    for ci, call in enumerate(plan["calls"]):
        acts = [[copy.deepcopy(a) for a in r["actions"]] for r in call]      # every member its own object, equal members included
        ctxs = [copy.deepcopy(r["ctx"]) for r in call]
        rwds = [r["reward"] for r in call]
        if cell["shape"] == "single":
            a, p, kw = safe.predict(ctxs[0], acts[0])
            got = [(a, p, kw)]
            safe.learn(ctxs[0], a, rwds[0], p, **kw)
        else:
            # an environment without contexts: the evaluators pass a plain None for the whole batch
            X, A = (Batch.List(ctxs) if plan["ctxkind"] != "none" else None), Batch.List(acts)
            pa, pp, pk = safe.predict(X, A)
            require(pk is not None and hasattr(pk, "items"), "batched predict must return a kwargs mapping", kwargs=pk)
            nb = len(call)
            require(len(pa) == nb and len(pp) == nb, "batched predict must return one action and one probability per row",
                    cell=cell, actions=pa, probs=pp, rows=nb)
            for k, v in pk.items():
                require(hasattr(v, "__len__") and not isinstance(v, str) and len(v) == nb, "batched kwargs must hold one value per row", key=k, value=v, rows=nb)
            got = [(pa[i], pp[i], {k: v[i] for k, v in pk.items()}) for i in range(nb)]
            safe.learn(X, pa, Batch.List(rwds), pp, **pk)
        for r, (row, g) in enumerate(zip(call, got)):
            out.append({"call": ci, "row": r, "plan": row, "offered": acts[r], "got": g})
    return out, learner

def check_rows(case, rows, learner):
    cell = case["cell"]
    for rec in rows:
        plan, offered, (a, p, kw) = rec["plan"], rec["offered"], rec["got"]
        fmt = forced_hint(cell["fmt"], cell["atype"], cell["n"], offered)
        where = dict(cell=cell, call=rec["call"], row=rec["row"], offered=offered)
        require(any(eq(a, o) for o in offered), "the action handed to the evaluator is not one of the offered actions", got=a, **where)
        if fmt in ("PM", "hPM"):
            same = [i for i, o in enumerate(offered) if a is o]
            cand = same if len(same) == 1 else [i for i, o in enumerate(offered) if eq(a, o)]
            # the drawn position is known when the returned object is one of the offered objects; otherwise (coba's float copies of
            # 0/1, a cached action list) any equal member qualifies - there is exactly one unless the list holds equal members
            masses = [plan["pmf"][i] for i in cand]
            require(any(m > 0 for m in masses), "an action of zero mass was drawn from the PMF", got=a, pmf=plan["pmf"], **where)
            require(p is not None and any(m > 0 and eq(p, m) for m in masses), "the reported probability is not the PMF's mass of the drawn action",
                    got=p, mass=masses, position=cand, action=a, pmf=plan["pmf"], **where)
        else:
            want = offered[plan["choice"] % len(offered)]
            require(eq(a, want), "the action handed to the evaluator is not the one the learner named", got=a, named=want, **where)
            if fmt in ("AP", "hAP"):
                require(p is not None and eq(p, plan["p"]), "the probability is not the one the learner stated", got=p, stated=plan["p"], **where)
            else:
                require(p is None, "an action-only answer must not acquire a probability", got=p, **where)
        wantkw = plan["kw"] if plan["kw"] is not None else {}
        require(dict(kw) == wantkw, "the kwargs are not the ones the learner returned", got=kw, want=wantkw, **where)
    # what learn received: the same context, the action/probability handed out, the reward, the same kwargs - once per row, in order
    require(len(learner.learned) == len(rows), "learn did not receive every row exactly once", received=len(learner.learned), rows=len(rows), cell=cell)
    for rec, got in zip(rows, learner.learned):
        a, p, kw = rec["got"]
        wantkw = rec["plan"]["kw"] if rec["plan"]["kw"] is not None else {}
        ctx, la, lr, lp, lkw = got
        require(ctx == rec["plan"]["ctx"] and eq(la, a) and lr == rec["plan"]["reward"] and (lp is None if p is None else eq(lp, p)) and dict(lkw) == wantkw,
                "learn received something other than (context, chosen action, reward, probability, kwargs) of its row",
                received=got, want=(rec["plan"]["ctx"], a, rec["plan"]["reward"], p, wantkw), cell=cell, call=rec["call"], row=rec["row"])
    sizes = {}
    for rec in rows: sizes[rec["call"]] = sizes.get(rec["call"], 0) + 1
    sizes = [sizes[c] for c in sorted(sizes)]
    if cell["shape"] in ("row", "col"):
        # a learner that handles batches is called once per batch with the batched arguments; the only extra call that is
        # tolerated is SafeLearner's layout probe: the first row of the first batch, once, right after the first call
        pc = list(learner.pcalls)
        if len(pc) == len(sizes) + 1 and pc[1] == 1: del pc[1]
        require(pc == sizes, "a batch-aware learner was not asked to predict exactly once per batch with the batched arguments (None = un-batched row)",
                predict_calls=learner.pcalls, batches=sizes, cell=cell, batch_only=learner.batch_only, kwtype=learner.kwtype)
        require(learner.lcalls == sizes, "a batch-aware learner was not taught exactly once per batch with the batched arguments (None = un-batched row)",
                learn_calls=learner.lcalls, batches=sizes, cell=cell, batch_only=learner.batch_only)
    if cell["shape"] == "single":
        require(learner.pcalls == [None] * len(rows) and learner.lcalls == [None] * len(rows), "an un-batched learner was not called exactly once per interaction",
                predict_calls=learner.pcalls, learn_calls=learner.lcalls, cell=cell)
    if cell["shape"] == "fallback":
        # SafeLearner finds out per method whether batches are understood: a method that takes batches gets them, once per
        # batch; a method that refuses them is called once per row
        pc = list(learner.pcalls)
        if learner.pred_ok and len(pc) == len(sizes) + 1 and pc[1] == 1: del pc[1]
        require(pc == (sizes if learner.pred_ok else [None] * len(rows)), "predict was not called once per batch (batch-capable predict) / once per row (predict refusing batches)",
                predict_calls=learner.pcalls, batches=sizes, predict_takes_batches=learner.pred_ok, learn_takes_batches=learner.learn_ok, cell=cell)
        require(learner.lcalls == (sizes if learner.learn_ok else [None] * len(rows)), "learn was not called once per batch (batch-capable learn) / once per row (learn refusing batches)",
                learn_calls=learner.lcalls, batches=sizes, predict_takes_batches=learner.pred_ok, learn_takes_batches=learner.learn_ok, cell=cell)
    if cell["shape"] == "fallback" and not learner.learn_ok:
        require(learner.learn_calls >= len(rows), "a learner that cannot batch must be taught row by row", calls=learner.learn_calls, rows=len(rows))

def triples(rows):
    return [r["got"] for r in rows]

def same_triples(t1, t2):
    if len(t1) != len(t2): return False
    for (a1, p1, k1), (a2, p2, k2) in zip(t1, t2):
        if not eq(a1, a2) or not ((p1 is None and p2 is None) or (p1 is not None and p2 is not None and eq(p1, p2))) or dict(k1) != dict(k2):
            return False
    return True

def hinted(case):
    return case["cell"]["fmt"].startswith("h")

def run_case(case):
    cell = case["cell"]
    plan = build(case)
    batch_ok = cell["shape"] in ("row", "col")
    try:
        rows, learner = drive(case, plan, batch_ok, plan["seed"])
    except CobaException as e:
        # un-hinted answers: a request for explicit hints is documented behaviour; hinted answers must be understood
        anyforced = any(forced_hint(cell["fmt"], cell["atype"], cell["n"], r["actions"]) != cell["fmt"] for c in plan["calls"] for r in c)
        if is_hint_request(e) and not hinted(case) and not anyforced:
            return
        raise
    check_rows(case, rows, learner)
    if cell["fmt"] in ("PM", "hPM"):
        rows2, _ = drive(case, plan, batch_ok, plan["seed"])
        require(same_triples(triples(rows), triples(rows2)), "two SafeLearners with the same seed drew different actions from the same PMFs",
                cell=cell, seed=plan["seed"], first=[t[0] for t in triples(rows)], second=[t[0] for t in triples(rows2)])
    if cell["shape"] == "fallback":
        rows3, l3 = drive(case, plan, True, plan["seed"], shape="row")
        check_rows(dict(case, cell=dict(cell, shape="row")), rows3, l3)
        require(same_triples(triples(rows), triples(rows3)), "the per-row fallback and the batch-aware twin disagree",
                cell=cell, fallback=triples(rows), twin=triples(rows3))

# ----------------------------------------------------------------------------------------- seeds sub-check
def run_seeds(case):
    cell = dict(case["cell"], fmt=case["cell"]["fmt"], kw=False)
    n, shape = cell["n"], cell["shape"]
    b = 1 if shape == "single" else cell["b"]
    ncalls = -(-40 // b)
    nx = Ints(case["ints"])
    base = action_set(cell["atype"], n, nx)
    calls, rid = [], 0
    for c in range(ncalls):
        rows = []
        for r in range(b):
            rows.append({"ctx": rid, "actions": base, "choice": 0, "p": 1.0, "pmf": [1 / n] * n, "kw": None, "reward": 0.0}); rid += 1
        calls.append(rows)
    plan = {"calls": calls, "ctxkind": "int", "batch_only": nx(2) == 1, "fallback_kind": ["both", "predict", "learn"][nx(3)]}
    batch_ok = shape in ("row", "col")
    s1, s2 = case["seed1"], case["seed2"]
    full = {"cell": cell, "ints": case["ints"]}
    r1, l1 = drive(full, plan, batch_ok, s1)
    check_rows(full, r1, l1)
    r1b, _ = drive(full, plan, batch_ok, s1)
    r2, _ = drive(full, plan, batch_ok, s2)
    idx = lambda rows: [[i for i, o in enumerate(r["offered"]) if eq(r["got"][0], o)][0] for r in rows]
    i1, i1b, i2 = idx(r1), idx(r1b), idx(r2)
    require(i1 == i1b, "equal seeds, different draws", cell=cell, seed=s1, first=i1, second=i1b)
    require(i1 != i2, "two different seeds produced the same 40+ uniform draws (the seed is not used)", cell=cell, seeds=(s1, s2), draws=i1)
    if case.get("wrap"):
        rw, lw = drive(full, plan, batch_ok, s1, wrap=case["wrap"])
        check_rows(full, rw, lw)
        require(idx(rw) == i1, "SafeLearner(SafeLearner(learner, s_inner), s) did not draw what a fresh SafeLearner(learner, s) draws (the outer seed is ignored or the stream is shared with the inner wrapper)",
                cell=cell, seed=s1, wrap=case["wrap"], fresh=i1, wrapped=idx(rw))
    per_call = [tuple(i1[c * b:(c + 1) * b]) for c in range(ncalls)]
    require(len(set(per_call)) > 1, "every call drew the same actions from a uniform PMF (the random stream is restarted per call)", cell=cell, seed=s1, draws=per_call[:6])

# ----------------------------------------------------------------------------------------- evaluator-level seed plumbing
EV_SEEDS = [0, 0.0, 1, 2, 7, 1000, None]
EV_ROWS = 24

class PlanEnv:
    """a small simulated environment built from the rows of a plan (fresh objects on every read)"""
    def __init__(self, rows, batch, igl=False):
        self.rows, self.batch, self.igl = rows, batch, igl
    @property
    def params(self):
        return {}
    def read(self):
        if self.igl:    # grounded interactions: SequentialIGL shows the learner the context (userid, context)
            return [{"context": r["ctx"][1], "actions": copy.deepcopy(r["actions"]), "rewards": list(r["rwds"]),
                     "feedbacks": list(reversed(r["rwds"])), "userid": r["ctx"][0]} for r in self.rows]
        its = [{"context": copy.deepcopy(r["ctx"]), "actions": copy.deepcopy(r["actions"]), "rewards": list(r["rwds"]),
                "action": copy.deepcopy(r["actions"][r["log"]]), "reward": r["log_reward"], "probability": r["log_prob"]} for r in self.rows]
        return Batch(self.batch).filter(its) if self.batch else its

def ev_plan(case):
    cell = case["cell"]
    n, shape = cell["n"], cell["shape"]
    b = 0 if shape == "single" else cell["b"]
    nx = Ints(case["ints"])
    base = action_set(cell["atype"], n, nx)
    igl = case.get("evaluator") == "igl"
    rows = [{"ctx": (rid % 3, rid) if igl else rid, "actions": base, "choice": 0, "p": 1.0, "pmf": [1 / n] * n, "reward": nx(5) / 4,
             "kw": {"k": KWVALS[rid % len(KWVALS)], "m": rid} if case.get("kw") else None,
             "rwds": [((rid + j) % 3) / 2 for j in range(n)],
             "log": (rid * 7 + 1) % n, "log_reward": 0.5 + (rid % 4) / 2, "log_prob": [0.5, 0.25, 1.0, 0.125][rid % 4]} for rid in range(EV_ROWS)]
    calls = [rows[i:i + b] for i in range(0, len(rows), b)] if b else [[r] for r in rows]
    return rows, b, {"calls": calls, "ctxkind": "int", "batch_only": nx(2) == 1, "fallback_kind": ["both", "predict", "learn"][nx(3)]}

def run_evaluator(case):
    """SequentialCB(seed=s) must hand its seed (or, for None, the experiment seed) to the PMF sampler: 'seed: Determine which
    action is played when learners return an action PMF' (SequentialCB docstring)."""
    cell = dict(case["cell"], kw=bool(case.get("kw")))
    rows, b, plan = ev_plan(case)
    batch_ok = cell["shape"] in ("row", "col")
    s = case["seed"]
    learn = case.get("learn", "on")
    igl = case.get("evaluator") == "igl"
    full = {"cell": cell, "ints": case["ints"]}
    saved = dict(CobaContext.store)

    def evaluate(exp_seed):
        CobaContext.store.pop("experiment_seed", None)
        if exp_seed is not None: CobaContext.store["experiment_seed"] = exp_seed
        double = learner = FmtLearner(cell, plan, batch_ok)
        if case.get("wrap"): learner = wrapped(learner, cell, plan, case["wrap"])
        if igl:
            out = list(SequentialIGL(record=["action", "probability", "reward", "feedback"], seed=s).evaluate(PlanEnv(rows, b, igl=True), learner))
        else:
            out = list(SequentialCB(record=["action", "probability"], learn=learn, eval="on", seed=s).evaluate(PlanEnv(rows, b), learner))
        require(len(out) == len(rows), "expected one row per interaction", rows=len(out), interactions=len(rows), cell=cell)
        for r, o in zip(rows, out):
            require(any(eq(o["action"], a) for a in r["actions"]) and eq(o["probability"], 1 / cell["n"]),
                    "the recorded action/probability is not a draw from the learner's PMF", row=o, offered=r["actions"], cell=cell)
        drawn = [[i for i, a in enumerate(r["actions"]) if eq(o["action"], a)][0] for r, o in zip(rows, out)]
        # what learn received, in every learn mode: on/ips teach the played action with the learner's own probability and kwargs,
        # off teaches the logged action/reward/probability without kwargs, None does not teach
        if igl: return drawn      # what an IGL learner is taught (the feedback) is not C15's subject; the draws are
        require(len(double.learned) == (len(rows) if learn else 0), "learn was not called once per interaction", learn=learn, received=len(double.learned), cell=cell)
        for r, o, i, got in zip(rows, out, drawn, double.learned):
            if learn == "off":
                want = (r["ctx"], r["actions"][r["log"]], r["log_reward"], r["log_prob"], {})
            else:
                reward = r["rwds"][i] if learn == "on" else (r["log_reward"] / r["log_prob"] if i == r["log"] else 0)
                want = (r["ctx"], o["action"], reward, o["probability"], r["kw"] or {})
            ok = got[0] == want[0] and eq(got[1], want[1]) and got[2] == want[2] and got[3] == want[3] and dict(got[4]) == want[4]
            require(ok, "learn did not receive (context, action, reward, probability, **kwargs) of its interaction", learn=learn, received=got, want=want, cell=cell)
        return drawn

    def direct(seed):
        got, _ = drive(full, plan, batch_ok, seed)
        return [[i for i, a in enumerate(g["offered"]) if eq(g["got"][0], a)][0] for g in got]

    try:
        e1, e2 = case["exp1"], case["exp2"]
        if s is not None:
            r1, r2 = evaluate(e1), evaluate(e2)
            require(r1 == r2, "two evaluations with the same explicit seed drew different actions (the experiment seed leaked in)",
                    seed=s, experiment_seeds=(e1, e2), first=r1, second=r2, cell=cell)
            d = direct(s)
            require(r1 == d, "SequentialCB(seed=s) did not draw what SafeLearner(learner, s) draws for the same calls (the seed is not handed on)",
                    seed=s, experiment_seed=e1, evaluator=r1, safelearner=d, cell=cell)
        elif e1 is not None:
            r1, r2 = evaluate(e1), evaluate(e1)
            require(r1 == r2, "seed=None: two evaluations under the same experiment seed drew different actions", experiment_seed=e1, first=r1, second=r2, cell=cell)
            d = direct(e1)
            require(r1 == d, "seed=None: the experiment seed does not decide the draws", experiment_seed=e1, evaluator=r1, safelearner=d, cell=cell)
        else:
            evaluate(None)      # no seed anywhere: time-seeded by design, only validity of the rows is checked
    finally:
        CobaContext.store.clear()
        CobaContext.store.update(saved)

@st.composite
def evaluator_cases(draw, tier):
    cell = {"fmt": draw(st.sampled_from(["PM", "hPM"])), "kw": False, "shape": draw(st.sampled_from(SHAPES)),
            "b": draw(st.sampled_from(BS)), "atype": draw(st.sampled_from(ATYPES)), "n": draw(st.sampled_from([2, 3, 4]))}
    if cell["shape"] == "single": cell["b"] = 0
    seed = draw(st.sampled_from(EV_SEEDS + [0, 0.0]))
    exps = st.one_of(st.none(), st.integers(0, 1000))
    e1, e2 = draw(exps), draw(exps)
    if seed is not None and e1 == e2:
        e2 = 5 if e1 is None else e1 + 1          # different experiment seeds (or one absent) behind the same explicit seed
    case = {"cell": cell, "ints": draw(st.lists(st.integers(0, 65535), min_size=8, max_size=8)), "seed": seed, "exp1": e1, "exp2": e2,
            "learn": draw(st.sampled_from(["on", "ips", "off", None, "ips"])), "kw": draw(st.booleans())}
    if draw(st.integers(0, 3)) == 0:
        # SequentialIGL(seed=s): un-batched grounded interactions (it builds its own SequentialCB), on-policy only
        case["evaluator"] = "igl"; case["learn"] = "on"
        cell["shape"], cell["b"] = "single", 0
    if draw(st.booleans()):
        case["wrap"] = {"inner_seed": draw(st.integers(0, 1000)), "pre": draw(st.integers(0, 3)), "other": draw(st.booleans())}
    return case

def ev_classes(case):
    return [f"seed={case['seed']!r}", f"shape={case['cell']['shape']}", ("learner already wrapped" + (":earlier use of other batchedness" if case["wrap"].get("other") and case["wrap"]["pre"] else "")) if case.get("wrap") else "plain learner",
            f"learn={case.get('learn', 'on')}", "kwargs" if case.get("kw") else "no kwargs", "SequentialIGL" if case.get("evaluator") == "igl" else "SequentialCB",
            "experiment_seed:" + ("both" if case["exp1"] is not None and case["exp2"] is not None else "one absent" if (case["exp1"] is None) != (case["exp2"] is None) else "absent")]

# ----------------------------------------------------------------------------------------- generators
def cells():
    for fmt in FORMATS:
        for kw in (False, True):
            for shape in SHAPES:
                for b in ([0] if shape == "single" else BS):
                    for atype in ATYPES:
                        for n in NS:
                            yield {"fmt": fmt, "kw": kw, "shape": shape, "b": b, "atype": atype, "n": n}
                            if shape == "single" and fmt in ("PM", "hPM"):
                                yield {"fmt": fmt, "kw": kw, "shape": shape, "b": b, "atype": atype, "n": n, "ipmf": True}

def mix(i, j):
    """deterministic integer mixing (no random module): a 32-bit multiplicative hash of (cell index, position)"""
    x = (i * 2654435761 + j * 40503 + 12345) & 0xFFFFFFFF
    x ^= x >> 15; x = (x * 2246822519) & 0xFFFFFFFF; x ^= x >> 13
    return x & 0xFFFF

def grid(tier):
    reps = 1 if tier == "quick" else 4
    for i, cell in enumerate(cells()):
        for rep in range(reps):
            yield {"cell": cell, "ints": [mix(i * 7 + rep, j) for j in range(N_INTS)]}

@st.composite
def sampled(draw, tier):
    cell = {"fmt": draw(st.sampled_from(FORMATS)), "kw": draw(st.booleans()), "shape": draw(st.sampled_from(SHAPES)),
            "b": draw(st.sampled_from(BS)), "atype": draw(st.sampled_from(ATYPES)), "n": draw(st.sampled_from(NS)),
            "calls": draw(st.integers(1, 4 if tier == "quick" else 6))}
    if cell["shape"] == "single": cell["b"] = 0
    if cell["shape"] == "single" and cell["fmt"] in ("PM", "hPM") and draw(st.booleans()): cell["ipmf"] = True
    if draw(st.integers(0, 3)) == 0 and cell["shape"] != "single":
        cell["b"] = cell["n"] if cell["n"] in BS else cell["b"]       # the square case more often
    ints = draw(st.lists(st.integers(0, 65535), min_size=N_INTS, max_size=N_INTS))
    return {"cell": cell, "ints": ints}

@st.composite
def seed_cases(draw, tier):
    cell = {"fmt": draw(st.sampled_from(["PM", "hPM"])), "kw": False, "shape": draw(st.sampled_from(SHAPES)),
            "b": draw(st.sampled_from(BS)), "atype": draw(st.sampled_from(ATYPES)), "n": draw(st.sampled_from([2, 3, 4]))}
    if cell["shape"] == "single": cell["b"] = 0
    s1 = draw(st.sampled_from([0, 0.0])) if draw(st.integers(0, 4)) == 0 else draw(st.integers(0, 1000))
    s2 = draw(st.integers(0, 999))
    if s2 >= s1: s2 += 1       # numerically different from s1 (0 and 0.0 are the same seed)
    case = {"cell": cell, "ints": draw(st.lists(st.integers(0, 65535), min_size=4, max_size=4)), "seed1": s1, "seed2": s2}
    if draw(st.booleans()):
        case["wrap"] = {"inner_seed": draw(st.integers(0, 1000)), "pre": draw(st.integers(0, 3)), "other": draw(st.booleans())}
    return case

# ----------------------------------------------------------------------------------------- evidence
def answer_width(cell):
    fmt = cell["fmt"]
    w = {"A": 1, "AP": 2, "PM": 1, "hA": 1, "hAP": 1, "hPM": 1}[fmt] + (1 if cell["kw"] else 0)
    return w

def nontrivial(case):
    cell = case["cell"]
    two = answer_width(cell) == 2 or (cell["fmt"] in ("PM", "hPM") and cell["n"] == 2) or (cell["atype"] in ("tuple", "list", "onehot", "str"))
    square = cell["shape"] in ("row", "col") and cell["b"] in (cell["n"], answer_width(cell))
    zero_one = cell["atype"] in ("int01", "float01")
    return bool(two or square or zero_one)

def classes(case):
    cell = case["cell"]
    out = [f"fmt={cell['fmt']}", f"shape={cell['shape']}", f"atype={cell['atype']}", f"kw={cell['kw']}", f"n={cell['n']}"]
    if cell["shape"] in ("row", "col") and cell["b"] == cell["n"]: out.append("square:b==n_actions")
    if cell["shape"] in ("row", "col") and cell["b"] == answer_width(cell): out.append("square:b==answer_width")
    if forced_hint(cell["fmt"], cell["atype"], cell["n"], []) != cell["fmt"]: out.append("forced-hint")
    if cell.get("ipmf"): out.append("integer-onehot-pmf")
    if case.get("wrap"): out.append("wrapped-twice" + (":earlier use of other batchedness" if case["wrap"].get("other") and case["wrap"]["pre"] else ""))
    if cell["shape"] == "fallback" and "seed1" not in case and "exp1" not in case:
        out.append("fallback:" + {"both": "predict+learn refuse batches", "predict": "only predict refuses batches", "learn": "only learn refuses batches"}[build(case)["fallback_kind"]])
    return out

def view(case):
    if "exp1" in case: return case
    plan = build(case) if "seed1" not in case else None
    v = {"cell": case["cell"]}
    if plan:
        v["seed"] = plan["seed"]
        v["first_call"] = [{k: r[k] for k in ("ctx", "actions", "choice", "p", "pmf", "kw")} for r in plan["calls"][0]]
    else:
        v["seeds"] = [case["seed1"], case["seed2"]]
    return v

SUBCHECKS = [
    Sub(name="grid", run=run_case, enumerate=grid, nontrivial=nontrivial, classes=classes, exhaustive=True, quick_shards=2, sample_view=view,
        what="every cell of format x kwargs x call shape x batch size x action type x number of actions, 3 calls each with values derived from the cell index: SafeLearner.predict returns the named offered action / stated probability / kwargs, learn receives them, PMF draws have positive exact mass and repeat for an equal seed, the per-row fallback equals its batch-aware twin"),
    Sub(name="sampled", run=run_case, strategy=sampled, nontrivial=nontrivial, classes=classes, quick=6000, thorough=150000, quick_shards=3, sample_view=view,
        what="same oracle, cell and all values (contexts, action values, choices, probabilities, PMFs, kwargs payloads, seed, 1-6 calls) drawn by Hypothesis, square batches over-sampled"),
    Sub(name="seeds", run=run_seeds, strategy=seed_cases, nontrivial=lambda c: True, classes=classes, quick=600, thorough=20000, quick_shards=1, sample_view=view,
        what="40+ uniform PMF draws per case in every call shape: equal seeds (0 and 0.0 included) repeat the run, different seeds differ somewhere, the draws are not the same in every call; half of the cases also build the SafeLearner around an inner, pre-used SafeLearner with another seed and expect the same draws"),
    Sub(name="evaluator", run=run_evaluator, strategy=evaluator_cases, nontrivial=lambda c: c["seed"] is not None or c["exp1"] is not None, classes=ev_classes,
        quick=500, thorough=10000, quick_shards=1, sample_view=view,
        what="a PMF-answering double evaluated through SequentialCB(seed=s) over 24 simulated interactions (un-batched or Batch(1..4), every call shape), s in {0, 0.0, 1, 2, 7, 1000, None} with CobaContext.store['experiment_seed'] set to generated values or absent: equal explicit seeds give equal action rows whatever the experiment seed, the rows equal the draws of SafeLearner(double, s) for the same calls, with seed=None the experiment seed decides; learn in on/ips/off/None with and without kwargs: learn receives the played action, probability and kwargs (or the logged triple); half of the cases hand SequentialCB an already wrapped, pre-used SafeLearner"),
]
