#!/usr/bin/env python3
"""Rewrite section 10 of DESIGN.md (seeded changes) from seeded/*/*/meta.json and seeded/NOTES.json; the prose that is not
counts lives in seeded/SECTION10.md (text between the heading and the table)."""
import subprocess, re, os, json, glob, collections
H = os.path.dirname(os.path.dirname(os.path.abspath(__file__)))
out = subprocess.run(["python3", f"{H}/tools/mkseedtable.py"], capture_output=True, text=True).stdout
tally = eval(re.search(r"changes: (\{.*\}) -->", out).group(1))
table = out.split("-->\n", 1)[1]
notes = json.load(open(f"{H}/seeded/NOTES.json"))
per_round = collections.defaultdict(lambda: collections.Counter())
for p in glob.glob(f"{H}/seeded/*/*/meta.json"):
    pid, n = p.split('/')[-3], int(p.split('/')[-2]); v = json.load(open(p))["verified"]; note = notes.get(f"{pid}/{n}")
    r = (n - 1) // 3 + 1
    k = ("strengthened" if note else "asis") if v.get("check_rc") == 1 else ("cross" if v.get("also_caught_by") else ("open" if note and note.startswith("open:") else ("notpursued" if note and note.startswith("not pursued") else "MISSED")))
    per_round[r][k] += 1
total = sum(tally.values())
rounds = "\n".join(f"| {r} | {sum(c.values())} | {c['asis']} | {c['strengthened']} | {c['cross']} | {c['notpursued']} | {c['open']} |" for r, c in sorted(per_round.items()))
prose = open(f"{H}/seeded/SECTION10.md").read()
prose = prose.format(total=total, nrounds=len(per_round), rounds=rounds, **tally)
d = open(f"{H}/DESIGN.md").read()
i = d.index("## 10. Seeded changes")
open(f"{H}/DESIGN.md", "w").write(d[:i] + prose.rstrip("\n") + "\n\n" + table)
print(tally, dict(per_round))
