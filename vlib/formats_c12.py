"""C12 helpers: table descriptors, the serialisers (Weka ARFF writer, RFC-4180 CSV, LibSVM, Manik) and their strategies.

Nothing in here imports coba. A *table descriptor* is plain data:

    {"relation": str,
     "cols": [{"name": str, "type": "numeric|integer|real|string|date|nominal", "levels": [str,...]}],
     "rows": [[cell, ...], ...]}

cell: numeric -> the decimal text that is written (e.g. "-1.5", "3", "2.5E-7") or None (missing)
      string/date -> the str value or None;   nominal -> index into levels or None
      sparse layout only: the str "omit" = the cell is left out of the sparse row.

The canonical ARFF dialect is pinned to what weka.core.Instances.toString() emits (Weka 3.8):
    @relation <Utils.quote(name)>\n\n@attribute <Utils.quote(name)> numeric|string|date <quoted fmt>|{l1,l2}\n...\n@data\n
    dense row:  v1,v2,...        sparse row: {i v,i v}      missing: ?      strings/levels: Utils.quote(value)
Utils.quote: back-slash escapes  \\ ' " % TAB LF CR U+001E  and then wraps in single quotes when something was escaped or
the value contains { } , or a blank, or equals "?" or "".
"""
import io, csv
from hypothesis import strategies as st

# ------------------------------------------------------------------------------------------------ Weka's writer
_WEKA_ESC = {"\\": "\\\\", "'": "\\'", "\t": "\\t", "\n": "\\n", "\r": "\\r", '"': '\\"', "%": "\\%", "\x1e": "\\u001E"}

def weka_quote(s: str) -> str:
    """weka.core.Utils.quote"""
    quote = False
    if any(c in s for c in _WEKA_ESC):
        s = "".join(_WEKA_ESC.get(c, c) for c in s)
        quote = True
    if quote or any(c in s for c in "{}, ") or s == "?" or s == "":
        s = "'" + s + "'"
    return s

def needs_quote(s: str) -> bool:
    return weka_quote(s) != s

DATE_FORMAT = "yyyy-MM-dd'T'HH:mm:ss"

class Chooser:
    """Deterministic stream of small choices taken from a generated list (cyclic; an empty list always answers 0)."""
    def __init__(self, stream):
        self.s = list(stream or [])
        self.i = 0
    def __call__(self, n):
        if not self.s or n <= 1:
            return 0
        v = self.s[self.i % len(self.s)] % n
        self.i += 1
        return v

def variant_quote(s: str, ch: Chooser, allow_bare=True) -> str:
    """A spelling of the token s that the ARFF grammar (Weka's tokenizer) reads back as s:
    single or double quotes; the quote character and the back-slash escaped by a back-slash; the other quote
    character and % either plain or escaped. Bare only when Weka itself would write it bare."""
    style = ch(3)            # 0: as Weka, 1: double quotes, 2: single quotes (even when not needed)
    if style == 0:
        if not needs_quote(s):
            return s if allow_bare else "'" + s + "'"
        q = "'"
    elif style == 1:
        q = '"'
    else:
        q = "'"
    other = '"' if q == "'" else "'"
    out = []
    for c in s:
        if c == "\\": out.append("\\\\")
        elif c == q: out.append("\\" + c)
        elif c == other: out.append(("\\" + c) if ch(2) else c)
        elif c == "%": out.append("\\%" if ch(2) == 0 else "%")
        else: out.append(c)
    return q + "".join(out) + q

KW = [  # relation, attribute, data, and a transformer for the type keyword
    ("@relation", "@attribute", "@data", str),
    ("@RELATION", "@ATTRIBUTE", "@DATA", str.upper),
    ("@Relation", "@Attribute", "@Data", str.capitalize),
    ("@relation", "@ATTRIBUTE", "@data", str),
]
ATTR_SEPS = [" ", "\t", "  ", " \t"]
DENSE_DELIMS = [",", ", ", "\t", ",  ", "\t "]
SPARSE_DELIMS = [",", ", ", ",  "]
NOM_DELIMS = [",", ", ", ",  "]
EOLS = ["", "\n", "\r\n"]

def arff_lines(table, layout="dense", plan=None):
    """Serialise the table. plan None/{} = canonical Weka. Returns a list of lines (without terminators unless plan.eol)."""
    plan = plan or {}
    canonical = not plan
    ch = Chooser(plan.get("stream"))
    kw_rel, kw_att, kw_dat, kw_type = KW[plan.get("kw", 0) % len(KW)]
    asep = ATTR_SEPS[plan.get("attr_sep", 0) % len(ATTR_SEPS)]
    ndel = NOM_DELIMS[plan.get("nom_sep", 0) % len(NOM_DELIMS)]
    npad = " " if plan.get("nom_pad") else ""
    q = weka_quote if canonical else (lambda s: variant_quote(s, ch))
    lines = [f"{kw_rel} {q(table['relation'])}", ""]
    for col in table["cols"]:
        t = col["type"]
        if t == "nominal":
            spec = "{" + npad + ndel.join(q(l) for l in col["levels"]) + npad + "}"
        elif t == "date":
            spec = kw_type("date") + ("" if plan.get("no_date_format") else " " + q(DATE_FORMAT))
        else:
            spec = kw_type(t)
        lines.append(f"{kw_att}{asep}{q(col['name'])}{asep}{spec}")
    lines += ["", kw_dat]
    n_header = len(lines)
    if layout == "dense":
        delim = DENSE_DELIMS[plan.get("delim", 0) % len(DENSE_DELIMS)]
        for row in table["rows"]:
            lines.append(delim.join(_cell_text(col, c, q, ch, plan) for col, c in zip(table["cols"], row)))
    else:
        delim = SPARSE_DELIMS[plan.get("delim", 0) % len(SPARSE_DELIMS)]
        pad = " " if plan.get("sparse_pad") else ""
        for row in table["rows"]:
            items = [f"{i} {_cell_text(col, c, q, ch, plan)}" for i, (col, c) in enumerate(zip(table["cols"], row)) if c != "omit"]
            lines.append("{" + pad + delim.join(items) + pad + "}")
    # comments and blank lines (grammar: a line starting with % is a comment, blank lines are ignored)
    for pos, text in plan.get("inserts", []):
        lines.insert(pos % (len(lines) + 1), text)
    eol = EOLS[plan.get("eol", 0) % len(EOLS)]
    return [l + eol for l in lines]

def _cell_text(col, c, q, ch, plan):
    if c is None:
        return "?"
    if col["type"] in ("numeric", "integer", "real"):
        if plan.get("quote_numbers") and ch(3) == 2:
            return ("'" + c + "'") if ch(2) else ('"' + c + '"')    # a quoted token is still a number for Weka's tokenizer
        return c
    if col["type"] == "nominal":
        return q(col["levels"][c])
    return q(c)

# ------------------------------------------------------------------------------------------------ strategies
LETTERS = "abcxyzABZ019"
SPECIAL = [" ", ",", "'", '"', "\\", "%", "?", "{", "}", "é", "日", "\U0001F600", "ß", ":", ";", "@", "#", "=", "-", "_", ".", "|"]

def _not_reserved(s):
    return s != "?"

# short strings over letters and the characters the property names; never '' and never exactly '?'
# runs of 1-3 back-slashes directly followed by a quote character (both kinds) and then a delimiter-like character or the end
# of the token: Weka writes a\',b as 'a\\\\\',b' - an odd run of back-slashes in front of a quote that is *not* the closing one
BS_QUOTE = [bs + q + d for bs in ("\\", "\\\\", "\\\\\\") for q in ("'", '"') for d in (",", " ", "}", "{", "")]
_CHARS = st.sampled_from(list(LETTERS) + SPECIAL + SPECIAL[:10])
_PIECES = st.one_of(_CHARS, _CHARS, _CHARS, _CHARS, _CHARS, st.sampled_from(BS_QUOTE))
_TRICKY = st.lists(_PIECES, min_size=1, max_size=6).map("".join).filter(_not_reserved)
_PLAIN = st.text(alphabet=st.sampled_from(list(LETTERS + "_-.")), min_size=1, max_size=5)

def tricky_text():
    return _TRICKY

plain_text = _PLAIN

def some_text(p_tricky=0.6):
    return st.one_of(_TRICKY, _TRICKY, _PLAIN) if p_tricky > 0.5 else st.one_of(_TRICKY, _PLAIN, _PLAIN)

def value_text():
    """string cells and nominal levels: as some_text() plus (1 in 8) the empty string, which Weka writes as '' - it is a value,
    not the missing marker. Attribute names stay non-empty; the string '?' is never generated."""
    return st.one_of(_TRICKY, _TRICKY, _TRICKY, _TRICKY, _PLAIN, _PLAIN, _PLAIN, st.just(""))

def chance(draw, percent):
    return draw(st.integers(0, 99)) < percent

NUM_TEXTS = ["0", "1", "-1", "2", "3", "10", "0.5", "-0.25", "1.5", "3.141593", "100000", "1.0E10", "2.5E-7", "-7", "0.000001", "12345.678"]

@st.composite
def number_text(draw, nonzero=False):
    if draw(st.booleans()):
        t = draw(st.sampled_from(NUM_TEXTS))
    else:
        whole = draw(st.integers(-9999, 9999))
        frac = draw(st.integers(0, 999999))
        t = str(whole) if frac == 0 or draw(st.booleans()) else f"{whole}.{frac:06d}".rstrip("0")
    if nonzero and float(t) == 0:
        t = "1"
    return t

N_ROWS = [1, 2, 0, 3, 1, 2, 3, 4, 5, 6, 7, 8]   # index 0 (what Hypothesis favours and shrinks to) is one row
DATES = ["2001-04-03T12:12:12", "1999-12-31T23:59:59", "2024-02-29T00:00:00"]

@st.composite
def tables(draw, layout="dense", max_rows=8, max_cols=6):
    ncols = draw(st.sampled_from([1, 1, 2, 2, 3, 3, 4, 5, 6]))
    names = draw(st.lists(some_text(), min_size=ncols, max_size=ncols, unique=True))
    cols = []
    for name in names:
        t = draw(st.sampled_from(["numeric", "numeric", "string", "string", "nominal", "nominal", "integer", "real", "date"]))
        col = {"name": name, "type": t}
        if t == "nominal":
            lv = draw(st.lists(value_text(), min_size=1, max_size=4, unique=True))
            if layout == "sparse":
                lv = [l for l in lv if l != "0"] or ["a"]   # see ASSUMPTIONS: "0" is coba's documented extra level
            col["levels"] = lv
        cols.append(col)
    nrows = draw(st.sampled_from(N_ROWS))
    rows = []
    for _ in range(nrows):
        row = []
        for col in cols:
            t = col["type"]
            k = draw(st.integers(0, 9))
            if k == 0:
                row.append(None)
            elif t in ("numeric", "integer", "real"):
                if layout == "sparse" and k <= 3:
                    row.append("omit")           # Weka leaves out zeros
                else:
                    row.append(draw(number_text(nonzero=(layout == "sparse"))))
            elif t == "nominal":
                if layout == "sparse" and k <= 2:
                    row.append("omit")           # Weka leaves out the value with index 0
                else:
                    row.append(draw(st.integers(0, len(col["levels"]) - 1)))
            elif t == "date":
                row.append(draw(st.sampled_from(DATES)))
            else:
                row.append(draw(value_text()))
        rows.append(row)
    return {"relation": draw(some_text(0.3)), "cols": cols, "rows": rows}

VIAS = ["reader", "reader", "reader", "source", "disk", "bytes"]
COMMENTS = ["%", "% a comment", "%it's, \"quoted\"", "% {0 1}", "%\t1,2,3", "% @data", "%%", "% 100% ?,"]

@st.composite
def arff_plans(draw, layout):
    plan = {"variant": True}
    def maybe(key, n, p=0.5):
        if chance(draw, int(p * 100)):
            plan[key] = draw(st.integers(0, n - 1))
    maybe("kw", len(KW)); maybe("attr_sep", len(ATTR_SEPS)); maybe("nom_sep", len(NOM_DELIMS))
    maybe("delim", len(DENSE_DELIMS) if layout == "dense" else len(SPARSE_DELIMS)); maybe("eol", len(EOLS), 0.3)
    if draw(st.booleans()): plan["nom_pad"] = True
    if draw(st.integers(0, 3)) == 0: plan["no_date_format"] = True
    if draw(st.integers(0, 3)) == 0: plan["quote_numbers"] = True
    if layout == "sparse" and draw(st.booleans()): plan["sparse_pad"] = True
    if chance(draw, 80):
        plan["stream"] = draw(st.lists(st.integers(0, 5), min_size=1, max_size=12))
    if draw(st.booleans()):
        plan["inserts"] = draw(st.lists(st.tuples(st.integers(0, 40), st.sampled_from(COMMENTS + ["", "", "  "])), min_size=1, max_size=4))
    return plan

# ------------------------------------------------------------------------------------------------ CSV
def _rfc_quote(v):
    return '"' + v.replace('"', '""') + '"'

def csv_lines(header, rows, fmt=None):
    """RFC-4180 writer = Python's csv.writer (excel dialect, minimal quoting); fmt selects writer variants."""
    fmt = fmt or {}
    recs = ([header] if header is not None else []) + [["" if c is None else c for c in r] for r in rows]
    d = fmt.get("delimiter", ",")
    if fmt.get("space_after"):
        # every field quoted, a blank after each delimiter (read with skipinitialspace=True)
        lines = [(d + " ").join(_rfc_quote(v) for v in r) for r in recs]
    else:
        buf = io.StringIO()
        w = csv.writer(buf, lineterminator="\n", delimiter=d, quoting=csv.QUOTE_ALL if fmt.get("quote_all") else csv.QUOTE_MINIMAL)
        lines = []
        for r in recs:
            buf.seek(0); buf.truncate()
            w.writerow(r)
            lines.append(buf.getvalue()[:-1])
    for pos in fmt.get("blank_at", []):
        lines.insert(pos % (len(lines) + 1), "")
    eol = EOLS[fmt.get("eol", 0) % len(EOLS)]
    return [l + eol for l in lines]

@st.composite
def csv_cases(draw, tier):
    ncols = draw(st.sampled_from([1, 1, 2, 2, 3, 3, 4, 5, 6]))
    has_header = draw(st.booleans())
    header = draw(st.lists(some_text(), min_size=ncols, max_size=ncols, unique=True)) if has_header else None
    nrows = max(draw(st.sampled_from(N_ROWS)), 0 if has_header else 1)
    cell = st.one_of(st.none(), some_text(), some_text(), number_text())
    rows = [[draw(cell) for _ in range(ncols)] for _ in range(nrows)]
    # a record that consists of one empty field is written as "" by csv.writer (so that the line is not blank)
    fmt = {}
    if chance(draw, 50):
        fmt["variant"] = True
        if draw(st.booleans()): fmt["delimiter"] = draw(st.sampled_from(["\t", ";", "|"]))
        if draw(st.booleans()): fmt["quote_all"] = True
        if chance(draw, 30): fmt["space_after"] = True
        if draw(st.booleans()): fmt["blank_at"] = draw(st.lists(st.integers(0, 12), min_size=1, max_size=3))
        if draw(st.booleans()): fmt["eol"] = draw(st.integers(1, 2))
        if len(fmt) == 1: fmt["quote_all"] = True
    return {"header": header, "rows": rows, "fmt": fmt, "via": draw(st.sampled_from(VIAS))}

# ------------------------------------------------------------------------------------------------ LibSVM / Manik
LABELS = ["0", "1", "-1", "+1", "2", "10", "11", "3.5", "cat", "dog", "A_b", "été"]
VAL_TEXTS = ["1", "0.5", "-2", "3.25", "1e-3", "-1.5E2", "7", "0.000001", "12", "100"]

@st.composite
def svm_cases(draw, tier):
    fmt_name = draw(st.sampled_from(["libsvm", "manik"]))
    nrows = draw(st.sampled_from(N_ROWS))
    rows = []
    for _ in range(nrows):
        nl = draw(st.sampled_from([1, 1, 1, 2, 3] if fmt_name == "manik" else [1, 1, 1, 1, 2]))
        labels = draw(st.lists(st.sampled_from(LABELS), min_size=nl, max_size=nl))
        keys = sorted(draw(st.sets(st.integers(0, 30), max_size=5)))
        feats = [[k, draw(st.sampled_from(VAL_TEXTS))] for k in keys]
        rows.append({"labels": labels, "feats": feats})
    fmt = {}
    if chance(draw, 45):
        fmt["variant"] = True
        if draw(st.booleans()): fmt["trail"] = draw(st.sampled_from([" ", "   ", "\t"]))
        if draw(st.booleans()): fmt["lead"] = draw(st.sampled_from([" ", "  "]))
        if chance(draw, 30): fmt["sep"] = draw(st.sampled_from(["  ", "\t"]))
        if draw(st.booleans()): fmt["blank_at"] = draw(st.lists(st.integers(0, 12), min_size=1, max_size=3))
        if draw(st.booleans()): fmt["eol"] = draw(st.integers(1, 2))
        if len(fmt) == 1: fmt["eol"] = 2
    return {"format": fmt_name, "rows": rows, "fmt": fmt, "via": draw(st.sampled_from(VIAS))}

def svm_lines(case):
    fmt = case["fmt"] or {}
    sep = fmt.get("sep", " ")
    lines = []
    for r in case["rows"]:
        parts = [",".join(r["labels"])] + [f"{k}:{v}" for k, v in r["feats"]]
        lines.append(fmt.get("lead", "") + sep.join(parts) + fmt.get("trail", ""))
    if case["format"] == "manik":
        nfeat = max([k for r in case["rows"] for k, _ in r["feats"]] + [0]) + 1
        nlab = len({l for r in case["rows"] for l in r["labels"]})
        lines.insert(0, f"{len(case['rows'])} {nfeat} {nlab}")
    for pos in fmt.get("blank_at", []):
        # never in front of the Manik meta line: the reader documents that it skips the *first* line
        lo = 1 if case["format"] == "manik" else 0
        lines.insert(lo + pos % (len(lines) - lo + 1), "")
    eol = EOLS[fmt.get("eol", 0) % len(EOLS)]
    return [l + eol for l in lines]

# ------------------------------------------------------------------------------------------------ byte delivery
TERMS_COMMON = ["\n", "\n", "\r\n", "\r\n", "\r"]
TERMS_EXOTIC = ["\x0b", "\x0c", "\x1c", "\x1d", "\x1e", "\x85", "\u2028", "\u2029"]
BYTE_ALPHABET = ["a", "b", "1", ",", " ", "é", "ß", "日", "€", "\U0001F600", "\U00010348"]

@st.composite
def delivery_texts(draw, max_lines, max_len, exotic):
    n = draw(st.integers(0, max_lines))
    parts = []
    for i in range(n):
        body = "".join(draw(st.lists(st.sampled_from(BYTE_ALPHABET), max_size=max_len)))
        if exotic and draw(st.integers(0, 2)) == 0:
            term = draw(st.sampled_from(TERMS_EXOTIC))
        else:
            term = draw(st.sampled_from(TERMS_COMMON))
        if i == n - 1 and draw(st.booleans()):
            term = ""
        parts.append(body + term)
    return "".join(parts)

# bulk bodies: 2 500 - 12 000 lines built from 1-3 template lines (plain data, expanded by bulk_text), so that gzip/deflate shrink
# them 50 to 1000 times and one raw chunk inflates to far more text than it holds - the shape of one-hot / indicator tables
BULK_COUNTS = [6000, 12000, 2500, 9000, 4000]
BULK_PIECES = ["0", ",0", ",0", ",0", ",1", "a", "b", ",", " ", "é", "日", "\U0001F600", "0.5", ",?"]

def bulk_text(b):
    t, every, term = b["templates"], b["noise_every"], b["term"]
    return "".join(t[i % len(t)] + (str(i) if every and i % every == 0 else "") + term for i in range(b["count"]))

@st.composite
def bulk_cases(draw):
    nt = draw(st.sampled_from([1, 1, 2, 3]))
    templates = ["".join(draw(st.lists(st.sampled_from(BULK_PIECES), min_size=6, max_size=24))) for _ in range(nt)]
    bulk = {"templates": templates, "term": draw(st.sampled_from(["\n", "\r\n", "\n"])), "count": draw(st.sampled_from(BULK_COUNTS)),
            "noise_every": draw(st.sampled_from([0, 0, 0, 997, 97, 10, 3]))}
    enc = draw(st.sampled_from([None, "gzip", "deflate", "gzip", "deflate"]))
    small = [64, 256, 700] if enc is None else [1, 7, 64, 256, 700]      # identity bodies are large: no byte-by-byte delivery
    chunks = sorted({draw(st.sampled_from(small)), 1024, draw(st.sampled_from([1500, 2048, 4096, 8192])), draw(st.sampled_from([16384, 65536, 10485760]))})
    return {"bulk": bulk, "encoding": enc, "charset": "utf-8", "chunks": chunks}

@st.composite
def byte_cases(draw, tier):
    if draw(st.integers(0, 17)) == 0:
        return draw(bulk_cases())
    small = draw(st.integers(0, 3)) > 0
    exotic = draw(st.integers(0, 4)) == 0
    if small:
        text = draw(delivery_texts(6, 5, exotic))
        while len(text.encode("utf-8")) > 64:
            text = text[:-1]
    else:
        text = draw(delivery_texts(25 if tier == "quick" else 60, 12, exotic))
    enc = draw(st.sampled_from([None, "gzip", "deflate"]))
    charset = draw(st.sampled_from(["utf-8"] * 5 + ["utf-16", "utf-16-le", "latin-1"]))
    try:
        text.encode(charset)
    except UnicodeEncodeError:
        charset = "utf-8"
    case = {"text": text, "encoding": enc, "charset": charset}
    if len(text.encode(charset)) <= 64:
        case["chunks"] = "all"
    else:
        case["chunks"] = sorted(draw(st.sets(st.integers(1, 40), min_size=3, max_size=8)))
    return case

# file names (relative to a fresh temp dir): plain, gzip by extension, and shapes on which an "ends with .gz" and a "contains .gz"
# rule disagree (incl. a directory component with .gz) - the round trip must hold whatever coba classifies them as
DISK_NAMES = ["lines.txt", "lines.txt.gz", "lines.txt", "lines.txt.gz", "packed.gz.part", "packed.gz.1", "runs.gz.d/result.log",
              "runs.gz.d/result.log.gz", "a.gzip", "x.GZ", "data.tgz", "log.gz.txt"]

@st.composite
def disk_cases(draw, tier):
    alphabet = BYTE_ALPHABET + ["\t", "\x0b", "\x0c", "\x1c", "\x85", "\u2028", "'", '"', "\\", "{", "%"]
    line = st.lists(st.sampled_from(alphabet), max_size=10).map("".join)
    nw = draw(st.integers(1, 3))
    writes = []
    for _ in range(nw):
        if draw(st.integers(0, 5)) == 0:
            writes.append(draw(line))                       # write(str)
        else:
            writes.append(draw(st.lists(line, max_size=6)))  # write(list of str)
    name = draw(st.sampled_from(DISK_NAMES))
    return {"writes": writes, "name": name, "gz": name.endswith(".gz"), "batch": draw(st.sampled_from([None, None, 1, 2, 3])),
            "reuse_sink": draw(st.booleans()), "include_loc": draw(st.integers(0, 3)) == 0}
