#!/bin/bash
# tools/runall.sh [tier] : run every registered check, print one line each
TIER="${1:-quick}"; cd "$(dirname "$0")/.."
for id in $(python3 -c "import json;print(' '.join(c['property_id'] for c in json.load(open('MANIFEST.json'))['checks']))"); do
  s=$(date +%s); out=$(./check $id --tier $TIER --jobs ${JOBS:-16} 2>&1); rc=$?
  echo "$id rc=$rc $(( $(date +%s)-s ))s $(echo "$out" | grep -E '^OK|VIOLATION|HARNESS' | head -2 | cut -c1-160)"
done
