"""C07 The result log faithfully records what evaluators produced.

Every case builds an Experiment from doubles (vlib/comps_c07.py): environments, learners and evaluators with generated
params, and evaluators that yield a generated list of rows per (environment, learner) pair. The experiment is run
in-process (processes=1, quiet, NullLogger whose sink collects logged exceptions, no .coba search path)
  * without a result file,
  * with a plain or a .gz result file in a fresh temporary directory (removed after the case),
  * optionally a second time on the complete file (restored run), and the file is loaded with Result.from_file.

Oracle 1 (model): the four tables of every Result agree with a normaliser written from the property statement:
  floats rounded to 5 decimals (tolerance below), integer-valued floats == ints, non-finite floats unchanged,
  top-level sequences come back as tuples, nested sequences as lists, non-string field names as str(name),
  absent fields None (coba's Missing counts as None), rows numbered 1..N in yield order under the ids of their triple,
  params rows = the component's params plus coba's documented default name key (env_type / family / eval_type).
Oracle 2 (routes): Result(no file), Result(file), Result.from_file(file) and the restored run are structurally
  identical (column order, row order, value types, NaN == NaN), including `.experiment`.
Where the statement does not fix a serialised form (reward objects) only oracle 2 applies.

Float tolerance: a finite non-integer float v (|v| < 1e6 by construction) must come back as a number a with
|a - v| <= 0.5e-5 (+ 1e-9 relative slack for the tie cases, where round-half-even on v*1e5 and on the decimal
expansion legitimately differ) and a*1e5 within 4 ulp of an integer (i.e. a has at most 5 decimals).
"""
import os, json, math, zlib, gzip, shutil, hashlib, tempfile, itertools
from hypothesis import strategies as st

from vlib.core import Sub
from vlib.util import Violation, Inconclusive, require, use_repo
use_repo()
from coba.context import CobaContext, NullLogger
from coba.pipes import ListSink
from coba.experiments import Experiment
from coba.results import Result
from coba.json import dumps as coba_dumps
from coba.primitives import L1Reward, BinaryReward, HammingReward, DiscreteReward

from vlib.comps_c07 import C07Env, C07Learner, C07Evaluator
from vlib import comps_c07 as comps

ID = "C07"
LEVEL = "exploration"
DESIGN_REF = "DESIGN.md section 6, C07"
RULE = ("cases = (1-2 environment / learner / evaluator doubles with generated params dictionaries, a non-empty ordered "
        "subset of their product as triples (or the full product via the three-list constructor), per triple a generated "
        "list of 0..5 rows (thorough 0..10) over 1-4 field names from a pool of plain, unicode, quoted, newline and "
        "non-string names with ragged key sets, values = None/bool/int/float (NaN, inf, ties at the 5th decimal, "
        "integer-valued, many decimals)/str (unicode, newlines, quotes, NUL, lone surrogates)/nested list-tuple-dict/reward objects, "
        "sink kind none/plain/.gz, restored second run or not, optional description); sub-check 'shapes' enumerates "
        "completely all columns of 1..3 rows over 10 value shapes; 'bigfile' enumerates single records above and exactly at 2**20 characters "
        "(many rows, long cells, long params value; plain/.gz; fresh/restored); 'gzalign' enumerates restored runs on complete .gz files whose "
        "description is padded until a chosen non-final gzip member ends on a multiple of 4096 bytes (rows stamped with the run that produced them); "
        "'longrows' enumerates single evaluations of 16385..70000 rows with fields that appear / disappear late; 'gzcut' enumerates .gz logs cut at every "
        "byte offset inside one gzip member followed by a restored run. Non-trivial = some triple has ragged key sets or a "
        "nested / non-finite / non-ASCII-or-control-character value; distinct = distinct canonical JSON of the case")
ASSUMPTIONS = [
    "field names of one evaluator output, and the keys of one params dictionary, are pairwise distinct under == and under str() (1 vs '1' vs 1.0 vs True in one output is not generated: the statement does not say which wins)",
    "the reserved column names environment_id, learner_id, evaluator_id and index are not used as field or params names; evaluator params do not contain eval_type (coba always overwrites it with the class name)",
    "params keys and keys of nested dictionaries are str, int or float (for these json's key text equals str(key)); None/bool/tuple keys are generated only as top-level field names of rows, where coba uses str()",
    "finite non-integer floats have |v| < 1e6 so that 5 decimals are far above double resolution; integer-valued floats of any magnitude are generated",
    "a field named 'rewards' may come back as a list or as a tuple (coba exempts this column from the tuple conversion because SequentialCB stores reward vectors / reward objects there)",
    "ids are assigned in order of first appearance in the triple list (what MakeTasks documents and restoring relies on)",
    "reward objects (L1Reward, BinaryReward, HammingReward, DiscreteReward) inside rows are only compared across the routes",
    "values that json cannot serialise (sets, bytes, arbitrary objects) and learner params that are not dictionaries are not generated; lone surrogates are generated in string values, not in field names",
    "single-process, in-process execution (multi-process and crash/resume are C01-C03) except the small fixed sub-check `workers`",
]

TMP_ROOT = tempfile.gettempdir()
RESERVED = {"environment_id", "learner_id", "evaluator_id", "index"}
NAN, INF = float("nan"), float("inf")

# ------------------------------------------------------------------------------------------------ running
def materialise(v):
    """case data -> the object handed to coba (reward descriptors become reward objects)"""
    if isinstance(v, dict):
        if len(v) == 1 and "$rwd" in v:
            kind, *args = v["$rwd"]
            if kind == "L1": return L1Reward(args[0])
            if kind == "BR": return BinaryReward(*args)
            if kind == "HR": return HammingReward(list(args[0]))
            if kind == "DR": return DiscreteReward(list(args[0]), list(args[1]))
            raise ValueError(kind)
        return {k: materialise(x) for k, x in v.items()}
    if isinstance(v, list): return [materialise(x) for x in v]
    if isinstance(v, tuple): return tuple(materialise(x) for x in v)
    return v

def is_rwd(v):
    return isinstance(v, dict) and len(v) == 1 and "$rwd" in v

def build(case, stamp=None):
    envs = [C07Env(i, materialise(p)) for i, p in enumerate(case["envs"])]
    lrns = [C07Learner(i, materialise(p)) for i, p in enumerate(case["lrns"])]
    by_val = {}
    for (e, l, v), rows in zip(case["triples"], case["rows"]):
        by_val.setdefault(v, {})[(e, l)] = [materialise(r) for r in rows]
    vals = [C07Evaluator(i, materialise(p), by_val.get(i, {}), stamp if case.get("stamp") else None) for i, p in enumerate(case["vals"])]
    descr = case.get("description")
    if case["form"] == "product":
        return Experiment(envs, lrns, vals, descr)
    triples = [(envs[e], lrns[l], vals[v]) for e, l, v in case["triples"]]
    # Experiment(triples, None) would be parsed as (environments, learners): pass the description only when there is one
    return Experiment(triples) if descr is None else Experiment(triples, descr)

def ascii_text(x):
    """text of an exception / log line made printable (generated strings may hold lone surrogates)"""
    return str(x).encode("ascii", "backslashreplace").decode("ascii")

def do_run(case, path, logs, what, stamp=1):
    sink = ListSink()
    CobaContext.search_paths = []
    CobaContext.logger = NullLogger(sink)
    exp = build(case, stamp)
    try:
        return exp.run(path, quiet=True, processes=case.get("procs", 1), maxchunksperchild=case.get("mcpc", 0), maxtasksperchunk=0)
    except Exception as e:
        raise Violation(f"[{what}] Experiment.run raised {type(e).__name__}: {ascii_text(e)}") from e
    finally:
        logs.extend(f"[{what}] {ascii_text(m)[-700:]}" for m in sink.items)

# ------------------------------------------------------------------------------------------------ model
def ids_of(case):
    """ids by first appearance in the triple list (for the product form this is the list position)"""
    em, lm, vm = {}, {}, {}
    out = []
    for e, l, v in case["triples"]:
        em.setdefault(e, len(em)); lm.setdefault(l, len(lm)); vm.setdefault(v, len(vm))
        out.append((em[e], lm[l], vm[v]))
    return em, lm, vm, out

def build_model(case, rerun=()):
    """rerun: id triples that were evaluated by the second (restored) run of a stamped case"""
    em, lm, vm, tids = ids_of(case)
    inter = {}
    empties = set()
    for tid, rows in zip(tids, case["rows"]):
        if rows and all(len(r) == 0 for r in rows): empties.add(tid)
        for n, row in enumerate(rows, 1):
            inter[tid + (n,)] = {str(k): v for k, v in row.items()}
            if case.get("stamp"): inter[tid + (n,)]["run"] = 2 if tid in rerun else 1   # rows of a recorded evaluation come from the first run
    def ptable(idmap, plist, name_key, default):
        out = {}
        for i, cid in idmap.items():
            row = {str(k): v for k, v in plist[i].items()}
            if name_key == "eval_type" or name_key not in row: row[name_key] = default
            out[cid] = row
        return out
    return {
        "interactions": inter, "all_empty": empties,
        "environments": ptable(em, case["envs"], "env_type", "C07Env"),
        "learners": ptable(lm, case["lrns"], "family", "C07Learner"),
        "evaluators": ptable(vm, case["vals"], "eval_type", "C07Evaluator"),
    }

def loose_eq(a, b):
    if isinstance(a, bool) or isinstance(b, bool): return a is b
    if isinstance(a, (int, float)) and isinstance(b, (int, float)):
        return (math.isnan(a) and math.isnan(b)) if (isinstance(a, float) and math.isnan(a)) or (isinstance(b, float) and math.isnan(b)) else abs(a - b) <= 1e-5 * max(1.0, abs(a))
    if isinstance(a, (list, tuple)) and isinstance(b, (list, tuple)): return len(a) == len(b) and all(loose_eq(x, y) for x, y in zip(a, b))
    if isinstance(a, dict) and isinstance(b, dict): return list(map(str, a)) == list(map(str, b)) and all(loose_eq(x, y) for x, y in zip(a.values(), b.values()))
    return a == b

def is_missing(x):
    return type(x).__name__ == "MissingType"

def agree(raw, act, top, field=None):
    """None if the value read back agrees with the normalised generated value, else a short reason"""
    if is_rwd(raw):
        # a reward object is logged as {registered name: state}: compare with the JSON form of a freshly built twin (numbers up
        # to the 5-decimal rounding) - a copy that travelled through pickle / deepcopy must be logged like the original
        try: want = json.loads(coba_dumps(materialise(raw)))
        except Exception: return None
        return None if loose_eq(want, act) else f"reward object is not logged as the JSON form of the object the evaluator yielded ({want!r})"
    if raw is None:
        return None if (act is None or is_missing(act)) else "expected None"
    if isinstance(raw, bool):
        return None if act is raw else "expected the same bool"
    if isinstance(raw, int):
        ok = isinstance(act, (int, float)) and not isinstance(act, bool) and act == raw
        return None if ok else "expected the same integer"
    if isinstance(raw, float):
        if not isinstance(act, (int, float)) or isinstance(act, bool): return "expected a number"
        if math.isnan(raw): return None if (isinstance(act, float) and math.isnan(act)) else "expected NaN"
        if math.isinf(raw) or raw.is_integer(): return None if act == raw else "expected the same value"
        if isinstance(act, float) and not math.isfinite(act): return "expected a finite number"
        if abs(act - raw) > 0.5e-5 + 4 * math.ulp(max(1.0, abs(raw))): return "further than half a unit of the 5th decimal"
        x = act * 1e5
        if abs(x - round(x)) > 4 * math.ulp(x): return "more than 5 decimals"
        return None
    if isinstance(raw, str):
        return None if (isinstance(act, str) and act == raw) else "expected the same string"
    if isinstance(raw, (list, tuple)):
        if top and field == "rewards": ok_t = isinstance(act, (list, tuple))
        elif top: ok_t = type(act) is tuple
        else: ok_t = type(act) is list
        if not ok_t: return f"expected a {'tuple' if top else 'list'}, got {type(act).__name__}"
        if len(act) != len(raw): return "length differs"
        for a, b in zip(raw, act):
            r = agree(a, b, False)
            if r: return r
        return None
    if isinstance(raw, dict):
        if type(act) is not dict: return f"expected a dict, got {type(act).__name__}"
        exp = {str(k): v for k, v in raw.items()}
        if set(exp) != set(act): return "dict keys differ"
        for k in exp:
            r = agree(exp[k], act[k], False)
            if r: return r
        return None
    raise TypeError(f"unexpected generated value {raw!r}")

def check_rows(what, tname, idcols, expected, table, logs, all_empty=()):
    cols = tuple(table.columns)
    require(len(set(cols)) == len(cols), f"[{what}] {tname}: duplicate column names", columns=cols)
    require(all(isinstance(c, str) for c in cols), f"[{what}] {tname}: non-string column name", columns=cols)
    actual = {}
    for d in table.to_dicts():
        key = tuple(d[c] for c in idcols)
        require(key not in actual, f"[{what}] {tname}: two rows with ids {key}", logs=logs)
        actual[key] = d
    extra = sorted(set(actual) - set(expected), key=repr)
    require(not extra, f"[{what}] {tname}: rows that nobody produced", ids=extra[:5], logs=logs)
    problems = []
    for key, exp in expected.items():
        if key not in actual: continue
        act = actual[key]
        for f, raw in exp.items():
            if f not in act:
                problems.append((key, f, raw, "<no such column>", "field lost")); continue
            r = agree(raw, act[f], True, f)
            if r: problems.append((key, f, raw, act[f], r))
        for f, v in act.items():
            if f in idcols or f in exp: continue
            if not (v is None or is_missing(v)):
                problems.append((key, f, "<absent>", v, "absent field is not None"))
    if problems:
        key, f, raw, got, why = problems[0]
        raise Violation(f"[{what}] {tname} row {key} field {f!r}: {why} | generated={raw!r} read_back={got!r} "
                        f"n_problems={len(problems)} logs={logs[:2]}")
    missing = sorted(set(expected) - set(actual), key=repr)
    if missing:
        if all_empty and all(k[:3] in all_empty for k in missing):
            raise Violation(f"all-empty-output [{what}] {tname}: a triple whose evaluator yielded only empty mappings has no rows "
                            f"| missing={missing[:4]}")
        raise Violation(f"[{what}] {tname}: rows missing | ids={missing[:5]} logs={logs[:2]}")

def check_model(what, res, model, logs):
    check_rows(what, "environments", ("environment_id",), {(k,): v for k, v in model["environments"].items()}, res.environments, logs)
    check_rows(what, "learners", ("learner_id",), {(k,): v for k, v in model["learners"].items()}, res.learners, logs)
    check_rows(what, "evaluators", ("evaluator_id",), {(k,): v for k, v in model["evaluators"].items()}, res.evaluators, logs)
    check_rows(what, "interactions", ("environment_id", "learner_id", "evaluator_id", "index"), model["interactions"],
               res.interactions, logs, model["all_empty"])

# ------------------------------------------------------------------------------------------------ routes
def plain(v):
    if is_missing(v): return "<Missing>"
    if isinstance(v, (list, tuple)): return type(v)(plain(x) for x in v)
    if isinstance(v, dict): return {k: plain(x) for k, x in v.items()}
    return v

def dump(res):
    out = {"experiment": plain(res.experiment)}
    for name in ("environments", "learners", "evaluators", "interactions"):
        t = getattr(res, name)
        cols = tuple(t.columns)
        out[name] = {"columns": cols, "rows": [tuple(plain(d[c]) for c in cols) for d in t.to_dicts()]}
    return out

def first_diff(a, b, path="$"):
    """None when a and b are structurally identical (types, order, NaN == NaN), else the path of the first difference"""
    if type(a) is not type(b): return f"{path}: {a!r} ({type(a).__name__}) vs {b!r} ({type(b).__name__})"
    if isinstance(a, float):
        if math.isnan(a) or math.isnan(b):
            return None if (math.isnan(a) and math.isnan(b)) else f"{path}: {a!r} vs {b!r}"
        return None if (a == b and math.copysign(1, a) == math.copysign(1, b)) else f"{path}: {a!r} vs {b!r}"
    if isinstance(a, (list, tuple)):
        if len(a) != len(b): return f"{path}: length {len(a)} vs {len(b)}"
        for i, (x, y) in enumerate(zip(a, b)):
            d = first_diff(x, y, f"{path}[{i}]")
            if d: return d
        return None
    if isinstance(a, dict):
        if list(a) != list(b): return f"{path}: keys {list(a)!r} vs {list(b)!r}"
        for k in a:
            d = first_diff(a[k], b[k], f"{path}[{k!r}]")
            if d: return d
        return None
    return None if a == b else f"{path}: {a!r} vs {b!r}"

def same_results(what, a, b, logs):
    d = first_diff(a, b)
    require(d is None, f"{what} differ at {d}", logs=logs[:2])

def run_aborted(case):
    """Ctrl-C inside the k-th evaluation: Experiment.run logs it and returns what was recorded. Every evaluation that ran to its
    end before that has exactly its rows (the aborted one may have left rows or not - whatever is there must be its own rows -
    and no evaluation that never started has any), and the three routes still agree. A later run on the file completes it."""
    ab = case["abort"]
    em, lm, vm, tids = ids_of(case)
    tid_of = {tuple(t): tid for t, tid in zip(case["triples"], tids)}
    full = build_model(case)
    def one(path, what):
        comps.arm_abort(ab["at"], ab["rows"])
        logs = []
        try:
            res = do_run(case, path, logs, what)
        finally:
            done, hit = list(comps.ABORT["done"]), comps.ABORT["hit"]
            comps.arm_abort()
        if hit is None: raise Inconclusive("the run has fewer evaluations than the abort position")
        done_ids = {tid_of[t] for t in done}; hit_id = tid_of[hit]
        got = {tuple(d[c] for c in ("environment_id", "learner_id", "evaluator_id", "index")) for d in res.interactions.to_dicts()}
        expected = {k: v for k, v in full["interactions"].items() if k[:3] in done_ids or (k[:3] == hit_id and k in got)}
        check_rows(what, "interactions", ("environment_id", "learner_id", "evaluator_id", "index"), expected, res.interactions, logs, full["all_empty"])
        for tname, idc in (("environments", "environment_id"), ("learners", "learner_id"), ("evaluators", "evaluator_id")):
            have = {d[idc] for d in getattr(res, tname).to_dicts()}
            need = {tid[("environments", "learners", "evaluators").index(tname)] for tid in done_ids}
            require(need <= have, f"[{what}] {tname}: a completed evaluation's component has no row after the aborted run", missing=sorted(need - have), logs=logs[:2])
            check_rows(what, tname, (idc,), {(k,): v for k, v in full[tname].items() if k in have}, getattr(res, tname), logs)
        return res, logs, len(done_ids)
    r_mem, logs, n_done = one(None, "aborted, no file")
    if case["sink"] == "none": return
    tmp = tempfile.mkdtemp(prefix="c07-", dir=TMP_ROOT)
    try:
        path = os.path.join(tmp, "result.log" + (".gz" if case["sink"] == "gz" else ""))
        r_file, logs2, _ = one(path, "aborted, " + case["sink"] + " file")
        try:
            r_load = Result.from_file(path)
        except Exception as e:
            raise Violation(f"Result.from_file raised {type(e).__name__} after an aborted run: {ascii_text(e)}") from e
        d_mem, d_file, d_load = dump(r_mem), dump(r_file), dump(r_load)
        same_results("aborted run: Result(no file) and Result(file)", d_mem, d_file, logs + logs2)
        same_results("aborted run: Result(file) and Result.from_file(file)", d_file, d_load, logs2)
        if case["restore"]:
            logs3 = []
            r_rest = do_run(case, path, logs3, "completing run")
            check_model("completing run", r_rest, full, logs3)
            same_results("completing run and Result.from_file", dump(r_rest), dump(Result.from_file(path)), logs3)
    finally:
        shutil.rmtree(tmp, ignore_errors=True)

def run_workers(case):
    """the same experiment in-process and through really spawned workers (rows cross the process boundary by pickle): the tables
    agree with the model and with each other, reward objects included"""
    model = build_model(case)
    logs = []
    r_in = do_run(dict(case, procs=1, mcpc=0), None, logs, "in-process")
    check_model("in-process", r_in, model, logs)
    r_w = do_run(case, None, logs, f"workers(processes={case['procs']}, maxchunksperchild={case['mcpc']})")
    check_model("workers", r_w, model, logs)
    a, b = dump(r_in), dump(r_w)
    for name in ("environments", "learners", "evaluators", "interactions"):   # workers finish in any order: compare as sorted rows
        require(a[name]["columns"] == b[name]["columns"] or sorted(a[name]["columns"]) == sorted(b[name]["columns"]), f"in-process and worker run: {name} columns differ", a=a[name]["columns"], b=b[name]["columns"])
        ra = sorted((repr(sorted(zip(a[name]["columns"], r), key=lambda kv: kv[0])) for r in a[name]["rows"]))
        rb = sorted((repr(sorted(zip(b[name]["columns"], r), key=lambda kv: kv[0])) for r in b[name]["rows"]))
        d = next(((x, y) for x, y in zip(ra, rb) if x != y), None)
        require(ra == rb, f"in-process and worker run: {name} rows differ", first=d, logs=logs[:2])

def workers(tier):
    """a few fixed experiments whose rows hold every kind of reward object (values other than 1 included) and nested cells"""
    R = [{"$rwd": ["BR", 2]}, {"$rwd": ["BR", 1, 0.5]}, {"$rwd": ["BR", 0, 2]}, {"$rwd": ["L1", 0.25]}, {"$rwd": ["HR", [0, 2]]}, {"$rwd": ["DR", [1, 2], [0.5, 0.25]]}]
    for procs, mcpc in ([(2, 0), (1, 1)] if tier == "quick" else [(2, 0), (1, 1), (2, 1), (3, 2)]):
        for ne in (1, 3):
            triples = [[e, 0, 0] for e in range(ne)]
            rows = [[{"reward": 0.5 * (e + 1), "rewards": R[(e + j) % len(R)], "a": [e, (j, "x")]} for j in range(len(R))] for e in range(ne)]
            yield {"envs": [{"i": e} for e in range(ne)], "lrns": [{"family": "w"}], "vals": [{"v": 1}], "form": "product",
                   "triples": triples, "rows": rows, "sink": "none", "restore": False, "description": None,
                   "workers": True, "procs": procs, "mcpc": mcpc}

def run(case):
    case = expand(case)
    if "workers" in case: return run_workers(case)
    if "abort" in case: return run_aborted(case)
    if "cut" in case: return run_cut_sweep(case)
    if "align" in case: case = with_aligned_description(case)
    model = build_model(case)
    logs = []
    r_mem = do_run(case, None, logs, "no file")
    check_model("no file", r_mem, model, logs)
    if case["sink"] == "none":
        return
    tmp = tempfile.mkdtemp(prefix="c07-", dir=TMP_ROOT)
    try:
        path = os.path.join(tmp, "result.log" + (".gz" if case["sink"] == "gz" else ""))
        r_file = do_run(case, path, logs, case["sink"] + " file")
        check_model(case["sink"] + " file", r_file, model, logs)
        try:
            r_load = Result.from_file(path)
        except Exception as e:
            raise Violation(f"Result.from_file raised {type(e).__name__}: {ascii_text(e)}") from e
        if "exact_len" in case:
            with (gzip.open(path, "rb") if case["sink"] == "gz" else open(path, "rb")) as f:
                longest = max(len(line.rstrip(b"\n")) for line in f)
            if longest != case["exact_len"]: raise Inconclusive(f"longest record has {longest} characters, wanted {case['exact_len']}")
        if "align" in case:
            ends = member_ends(path)
            if len(ends) < 2: raise Inconclusive("the .gz file has a single member")
            j = case["align"]["member"] % (len(ends) - 1)
            if ends[j] % 4096 != 0: raise Inconclusive(f"member {j} ends at {ends[j]}, not on a 4 KiB boundary")
        d_mem, d_file, d_load = dump(r_mem), dump(r_file), dump(r_load)
        same_results("Result(no file) and Result(file)", d_mem, d_file, logs)
        same_results("Result(file) and Result.from_file(file)", d_file, d_load, logs)
        if case["restore"]:
            r_rest = do_run(case, path, logs, "restored", stamp=2)
            check_model("restored", r_rest, model, logs)
            same_results("fresh run and restored run", d_file, dump(r_rest), logs)
            same_results("Result.from_file before and after the restored run", d_load, dump(Result.from_file(path)), logs)
    finally:
        shutil.rmtree(tmp, ignore_errors=True)

# ------------------------------------------------------------------------------------------------ large records, aligned gzip members
def expand(case):
    """cases of the 'bigfile' sub-check describe their rows/params compactly; build them here"""
    big = case.get("big")
    if not big: return case
    case = dict(case)
    if big["kind"] == "many-rows":
        case["rows"] = [[{"reward": (i % 977) / 977, "action": i % 7, "note": f"row-{i}"} for i in range(big["n"])]]
    elif big["kind"] == "long-cells":
        cell = big["char"] * big["len"]
        case["rows"] = [[{"a": i, "text": cell + str(i), "b": [i, cell[:3]]} for i in range(big["n"])]]
    elif big["kind"] == "long-param":
        case["envs"] = [{"blob": big["char"] * big["len"], "k": 1}]
        case["rows"] = [[{"a": 1, "b": (1, 2)}, {"a": 2}]]
    elif big["kind"] == "late-fields":
        # one long evaluation: field f"from{p}" is yielded from row p on, f"upto{p}" only before row p, "only{a}" in rows a..b-1
        def row(i):
            r = {"i": i}
            for p in big.get("from", ()):
                if i >= p: r[f"from{p}"] = i % 5
            for p in big.get("upto", ()):
                if i < p: r[f"upto{p}"] = [i % 3]
            for a, b in big.get("only", ()):
                if a <= i < b: r[f"only{a}"] = f"v{i % 4}"
            return r
        case["rows"] = [[row(i) for i in range(big["n"])]]
    elif big["kind"] == "exact":
        # one ASCII cell sized so that the packed record (without its line feed) has exactly big["chars"] characters
        probe = dict(case, big=None, rows=[[{"a": 1, "text": ""}, {"a": 2, "text": "t"}]], sink="plain", restore=False)
        tmp = tempfile.mkdtemp(prefix="c07-", dir=TMP_ROOT)
        try:
            path = os.path.join(tmp, "probe.log")
            do_run(probe, path, [], "probe")
            with open(path, encoding="utf-8") as f:
                base = max(len(line.rstrip("\n")) for line in f if line.startswith('["I"'))
        finally:
            shutil.rmtree(tmp, ignore_errors=True)
        case["rows"] = [[{"a": 1, "text": "x" * (big["chars"] - base)}, {"a": 2, "text": "t"}]]
        case["exact_len"] = big["chars"]
    else:
        raise ValueError(big["kind"])
    return case

def member_ends(path):
    """offsets at which the gzip members of a file end"""
    with open(path, "rb") as f: data = f.read()
    ends, pos = [], 0
    while pos < len(data):
        d = zlib.decompressobj(wbits=31)
        d.decompress(data[pos:])
        if not d.eof: raise Inconclusive("result file holds an incomplete gzip member")
        pos = len(data) - len(d.unused_data)
        ends.append(pos)
    return ends

def pad_text(salt, n):
    """deterministic, poorly compressible alphanumeric text"""
    out, i = [], 0
    while sum(map(len, out)) < n:
        out.append(hashlib.sha256(f"{salt}:{i}".encode()).hexdigest()); i += 1
    return "".join(out)[:n]

def with_aligned_description(case):
    """find a description length for which gzip member `member` of the fresh .gz file ends on a multiple of 4096"""
    want = case["align"]
    tmp = tempfile.mkdtemp(prefix="c07-", dir=TMP_ROOT)
    try:
        path = os.path.join(tmp, "result.log.gz")   # same base name as the real file: gzip stores it in every member header
        n, target, seen = want.get("start", 3000), None, set()
        for _ in range(60):
            if n in seen or not (0 < n < 60000): break
            seen.add(n)
            if os.path.exists(path): os.remove(path)
            trial = dict(case, description=pad_text(want["salt"], n))
            do_run(trial, path, [], "trial")
            ends = member_ends(path)
            if len(ends) < 2: raise Inconclusive("the .gz file has a single member")
            j = want["member"] % (len(ends) - 1)     # never the last member
            if target is None: target = (ends[j] // 4096 + want.get("blocks", 1)) * 4096
            diff = target - ends[j]
            if diff == 0: return trial
            n += diff if abs(diff) < 3 else int(diff * 1.9)   # hex digits deflate to a bit more than half a byte each
    finally:
        shutil.rmtree(tmp, ignore_errors=True)
    raise Inconclusive("no description length aligns the member")

def run_cut_sweep(case):
    """A run that was killed while it wrote gzip member k of its .gz result file, at every byte offset inside that member.

    The records of a finished, stamped run are taken from its result file and written again one gzip member per record (what
    DiskSink(batch=1) does) with a fixed mtime, so that the bytes - and the kill points that follow a 0x0a byte - do not depend
    on the clock. For every cut the same experiment is run on the cut file: it has to return, the evaluations whose record was
    complete keep the rows of the first run (run == 1), the others are evaluated by the second run (run == 2), params tables and
    the experiment record are as in the fresh run, and Result.from_file afterwards equals the returned Result."""
    want = case["cut"]
    logs = []
    tmp = tempfile.mkdtemp(prefix="c07-", dir=TMP_ROOT)
    try:
        is_gz = case["sink"] == "gz"
        ext = ".log.gz" if is_gz else ".log"
        full = os.path.join(tmp, "full" + ext)
        r_fresh = do_run(case, full, logs, "fresh file")
        check_model("fresh file", r_fresh, build_model(case), logs)
        with (gzip.open(full, "rb") if is_gz else open(full, "rb")) as f:
            lines = [l for l in f.read().split(b"\n") if l.strip()]
        # plain files: a "member" is a line with its line feed
        members = [gzip.compress(l + b"\n", compresslevel=6, mtime=want["mtime"]) if is_gz else l + b"\n" for l in lines]
        k = (len(members) - want["from_end"]) % len(members)     # from_end == 0: the first record
        _, _, _, tids = ids_of(case)
        def model_for(n_complete):
            done = set()
            for l in lines[:n_complete]:
                rec = json.loads(l)
                if rec[0] == "I" and rec[2].get("_packed"): done.add(tuple(rec[1]))
            return build_model(case, rerun={t for t in tids if t not in done})
        model, model_whole = model_for(k), model_for(k + 1)
        head, member = b"".join(members[:k]), members[k]
        cuts = range(1, len(member)) if want.get("step", 1) == 1 else sorted(set(range(1, len(member), want["step"])) |
                                                                             {p for p in range(1, len(member)) if member[p - 1] == 0x0a})
        path = os.path.join(tmp, "result" + ext)
        for p in cuts:
            with open(path, "wb") as f: f.write(head + member[:p])
            what = f"restored, killed {p} of {len(member)} bytes into member {k} (previous byte 0x{member[p - 1]:02x})"
            cut_logs = []
            r_rest = do_run(case, path, cut_logs, what, stamp=2)
            # a plain record that lacks nothing but its line feed is complete (coba documents and repairs exactly that)
            check_model(what, r_rest, model_whole if (not is_gz and p == len(member) - 1) else model, cut_logs)
            require(plain(r_rest.experiment) == plain(r_fresh.experiment), f"[{what}] experiment record differs from the fresh run",
                    fresh=r_fresh.experiment, restored=r_rest.experiment)
            try:
                r_load = Result.from_file(path)
            except Exception as e:
                raise Violation(f"[{what}] Result.from_file raised {type(e).__name__}: {ascii_text(e)}") from e
            same_results(f"[{what}] returned Result and Result.from_file", dump(r_rest), dump(r_load), cut_logs)
    finally:
        shutil.rmtree(tmp, ignore_errors=True)

# ------------------------------------------------------------------------------------------------ strategies
NASTY = ["", " ", "\u00e9", "\u65e5\u672c\u8a9e", "a\nb", "\r\n", 'q"q', "it's", "\\", "\\n", "\t", "\u2028", "\x00", "NaN", "null",
         "[1,2]", '{"a":1}', "\U0001F600", "a,b", "e\u0301", "\x7f", "\u00a0x", "\x85"]
FLOATS = [NAN, INF, -INF, -0.0, 0.0, 3.0, -2.0, 1e15, 1e300, -1e22, 2.0 ** 60, 0.000005, 1.000005, 2.675, 0.1 + 0.2,
          1 / 3, -1 / 3, 123456.123456789, 1e-7, -1e-7, 5e-324, 0.999995, 0.9999949, 2.5e-6, 99999.999995, -0.000015,
          0.12345678901234, 7.00001, 7.000001]
BIGINTS = [10 ** 6, -2 ** 31, 2 ** 53 + 1, 2 ** 70, -10 ** 30]

# lone surrogates: a file name decoded with surrogateescape, a truncated emoji, high/low alone, reversed pair, inside text
SURROGATES = ["\ud83d", "\udce9", "\ud800", "\udfff", "/data/caf\udce9.csv", "a\ud800b", "\udfff\ud800", "x\ud83d", "\udc80\n", "\u00e9\udcff\u65e5"]
strings = st.one_of(st.sampled_from(NASTY), st.text(max_size=6), st.sampled_from(SURROGATES),
                    st.tuples(st.text(max_size=3), st.sampled_from(SURROGATES[:4]), st.text(max_size=3)).map("".join))
floats = st.one_of(st.sampled_from(FLOATS), st.floats(-1e6, 1e6, allow_nan=False), st.floats(-1, 1),
                   st.integers(-10 ** 8, 10 ** 8).map(lambda k: k / 1e6))
ints = st.one_of(st.integers(-5, 5), st.sampled_from(BIGINTS))
scalars = st.one_of(st.none(), st.booleans(), ints, floats, floats, strings)
NESTED_KEYS = ["k", "x", "\u00e9", "a b", "n\nl", 'q"', "0", 3, -1, 2.5]
nested = st.recursive(scalars, lambda c: st.one_of(st.lists(c, max_size=3), st.lists(c, max_size=3).map(tuple),
                                                   st.dictionaries(st.sampled_from(NESTED_KEYS), c, max_size=3)), max_leaves=5)
sequences = st.one_of(st.lists(nested, max_size=3), st.lists(nested, max_size=3).map(tuple))
dicts = st.dictionaries(st.sampled_from(NESTED_KEYS), nested, max_size=3)
rewards_objs = st.one_of(
    st.floats(-5, 5).map(lambda x: {"$rwd": ["L1", x]}),
    st.integers(0, 3).map(lambda a: {"$rwd": ["BR", a]}),
    st.tuples(st.integers(0, 3), st.sampled_from([0.5, 2, 0.25])).map(lambda t: {"$rwd": ["BR", t[0], t[1]]}),
    st.lists(st.integers(0, 4), min_size=1, max_size=3, unique=True).map(lambda a: {"$rwd": ["HR", a]}),
    st.just({"$rwd": ["DR", [1, 2], [0.5, 0.25]]}))
row_values = st.one_of(scalars, scalars, sequences, sequences, dicts, rewards_objs)
param_values = st.one_of(scalars, scalars, sequences, dicts)

STR_FIELDS = ["a", "b", "c", "reward", "rewards", "time", "x y", 'q"k', "\u00e9\u20ac", "l\nb", "", "A", "_packed", "0"]
OBJ_FIELDS = [7, -3, 2.5, None, True, (1, 2), ("k", 0)]
PARAM_KEYS = ["p", "q", "seed", "args", "x y", "\u00e9", "n\nl", 'q"k', "", "type", 7, -3, 2.5]

@st.composite
def params_dicts(draw, name_key):
    keys = draw(st.lists(st.sampled_from(PARAM_KEYS + ([name_key] if name_key else [])), unique=True, max_size=3))
    # the name 'vw' makes Result look for the VowpalWabbit-specific params 'args' and 'seed'
    return {k: (draw(strings.filter(lambda s: s != "vw")) if k == name_key else draw(param_values)) for k in keys}

@st.composite
def row_lists(draw, max_rows):
    pool = STR_FIELDS + OBJ_FIELDS if draw(st.integers(0, 2)) == 0 else STR_FIELDS
    keys = draw(st.lists(st.sampled_from(pool), unique=True, min_size=1, max_size=4))
    n = draw(st.integers(0, max_rows))
    rows = []
    for _ in range(n):
        if draw(st.integers(0, 9)) < 6: ks = keys
        else: ks = draw(st.lists(st.sampled_from(keys), unique=True, min_size=0 if draw(st.integers(0, 4)) == 0 else 1))
        rows.append({k: draw(row_values) for k in ks})
    return rows

@st.composite
def cases(draw, tier, with_file):
    sizes = st.sampled_from([1, 1, 1, 2])
    ne, nl, nv = draw(sizes), draw(sizes), draw(sizes)
    product = list(itertools.product(range(ne), range(nl), range(nv)))
    form = draw(st.sampled_from(["product", "triples"]))
    if form == "product" or len(product) == 1:
        triples = product
    else:
        triples = list(draw(st.permutations(product)))[:draw(st.integers(1, len(product)))]
        # every component must be used by some triple (an unused one is simply not part of the experiment)
        ue, ul, uv = sorted({t[0] for t in triples}), sorted({t[1] for t in triples}), sorted({t[2] for t in triples})
        triples = [(ue.index(e), ul.index(l), uv.index(v)) for e, l, v in triples]
        ne, nl, nv = len(ue), len(ul), len(uv)
    max_rows = 5 if tier == "quick" else 10
    case = {
        "envs": [draw(params_dicts("env_type")) for _ in range(ne)],
        "lrns": [draw(params_dicts("family")) for _ in range(nl)],
        "vals": [draw(params_dicts(None)) for _ in range(nv)],
        "form": form, "triples": [list(t) for t in triples],
        "rows": [draw(row_lists(max_rows)) for _ in triples],
        "sink": draw(st.sampled_from(["plain", "gz"])) if with_file else "none",
        "restore": draw(st.booleans()) if with_file else False,
        "description": draw(st.one_of(st.none(), strings)),
    }
    # half of the restored cases mark every row with the run that produced it: a completed triple that is evaluated
    # again by the restored run then shows up as different rows
    if case["restore"] and draw(st.booleans()): case["stamp"] = True
    return case

@st.composite
def aborted_cases(draw, tier):
    """2-6 evaluations, the k-th (k >= 1 mostly: something completed before) is interrupted after j rows"""
    ne, nl, nv = draw(st.sampled_from([(2, 1, 1), (3, 1, 1), (2, 2, 1), (1, 2, 2), (3, 2, 1), (2, 1, 2), (1, 3, 1)]))
    triples = list(itertools.product(range(ne), range(nl), range(nv)))
    form = draw(st.sampled_from(["product", "triples"]))
    if form == "triples": triples = list(draw(st.permutations(triples)))
    rows = [draw(row_lists(4)) for _ in triples]
    at = draw(st.integers(0, len(triples) - 1))
    if at == 0 and draw(st.booleans()): at = len(triples) - 1
    return {
        "envs": [draw(params_dicts("env_type")) for _ in range(ne)],
        "lrns": [draw(params_dicts("family")) for _ in range(nl)],
        "vals": [draw(params_dicts(None)) for _ in range(nv)],
        "form": form, "triples": [list(t) for t in triples], "rows": rows,
        "sink": draw(st.sampled_from(["plain", "gz", "gz", "none"])), "restore": draw(st.booleans()),
        "description": draw(st.one_of(st.none(), strings)),
        "abort": {"at": at, "rows": draw(st.integers(0, 4))},
    }

def mem_cases(tier): return cases(tier, False)
def file_cases(tier): return cases(tier, True)

# ------------------------------------------------------------------------------------------------ enumeration
SHAPES = {
    "absent": None, "none": [None], "int": [3], "float": [0.123456], "str": ["xy"], "list": [[1, 2]], "tuple": [(3, [4])],
    "empty": [[]], "dict": [{"k": [1]}], "nested": [[[1], (2,)]],
}

def shapes(tier):
    for key in ("a", "rewards"):
        for n in (1, 2, 3):
            for combo in itertools.product(SHAPES, repeat=n):
                rows = []
                for i, s in enumerate(combo):
                    row = {"i": i}
                    if SHAPES[s] is not None: row[key] = SHAPES[s][0]
                    rows.append(row)
                yield {"envs": [{}], "lrns": [{}], "vals": [{}], "form": "product", "triples": [[0, 0, 0]], "rows": [rows],
                       "sink": "none", "restore": False, "description": None, "shapes": list(combo)}

BASE = {"envs": [{}], "lrns": [{}], "vals": [{}], "form": "product", "triples": [[0, 0, 0]], "rows": [[]], "sink": "plain",
        "restore": False, "description": None}

def bigfile(tier):
    """one record (line) of the result file longer than 1 MiB, and records right at that size"""
    M = 2 ** 20
    def c(big, sink, restore): return dict(BASE, big=big, sink=sink, restore=restore, stamp=restore)
    yield c({"kind": "long-cells", "n": 3, "len": 400000, "char": "x"}, "plain", True)
    yield c({"kind": "long-cells", "n": 3, "len": 70000, "char": "\u00e9"}, "gz", True)      # 6 characters each once escaped
    yield c({"kind": "many-rows", "n": 60000}, "gz", False)
    yield c({"kind": "long-param", "len": M + 1000, "char": "p"}, "plain", True)
    yield c({"kind": "exact", "chars": M - 1}, "plain", False)
    yield c({"kind": "exact", "chars": M}, "plain", True)
    yield c({"kind": "exact", "chars": M + 1}, "gz", True)
    if tier == "thorough":
        for sink in ("plain", "gz"):
            for restore in (False, True):
                for chars in (M - 2, M - 1, M, M + 1, M + 2, 2 * M - 1, 2 * M, 2 * M + 1, 3 * M + 5):
                    yield c({"kind": "exact", "chars": chars}, sink, restore)
                for n, ln, ch in ((1, M + 10, "y"), (2, 600000, "z"), (5, 250000, "\u65e5"), (4, 300000, "\n"), (3, 200000, "\ud83d")):
                    yield c({"kind": "long-cells", "n": n, "len": ln, "char": ch}, sink, restore)
                yield c({"kind": "long-param", "len": 2 * M + 7, "char": "\u00e9"}, sink, restore)
                yield c({"kind": "many-rows", "n": 70000}, sink, restore)
                yield c({"kind": "many-rows", "n": 150000}, sink, restore)

def gzalign(tier):
    """restored runs on a complete .gz file in which a gzip member other than the last ends on a multiple of 4096 bytes"""
    shapes_ = [
        dict(BASE, envs=[{"p": [1, 2]}], lrns=[{"q": 0.25}], rows=[[{"a": 1, "b": [1, 2]}, {"a": 2}]]),
        dict(BASE, envs=[{"p": 1}, {"p": "two"}], lrns=[{}, {"family": "L"}], triples=[[0, 0, 0], [0, 1, 0], [1, 0, 0], [1, 1, 0]],
             rows=[[{"a": 1}], [{"a": 2.5, "c": None}], [{"b": (1, 2)}, {"b": "x"}], [{"a": float("inf")}]]),
    ]
    members = range(1, 7) if tier == "quick" else range(1, 12)
    salts = (0, 1) if tier == "quick" else range(6)
    for shape in shapes_:
        for member in members:
            for salt in salts:
                for blocks in ((1,) if tier == "quick" else (1, 2, 3)):
                    yield dict(shape, sink="gz", restore=True, stamp=True, align={"member": member, "salt": salt, "blocks": blocks})

def longrows(tier):
    """one evaluation of more than 2**10 .. 2**16 rows whose fields appear and disappear late"""
    def c(big, sink, restore): return dict(BASE, big=dict(big, kind="late-fields"), sink=sink, restore=restore, stamp=restore)
    yield c({"n": 16385, "from": [16384]}, "none", False)                                        # a field on the very last row only
    yield c({"n": 20000, "from": [1024, 4096, 16384], "upto": [100, 8192], "only": [[16384, 16390]]}, "plain", True)
    yield c({"n": 40000, "from": [2048, 32768, 39999], "upto": [16384, 32768], "only": [[16384, 32768], [8192, 8193]]}, "gz", False)
    if tier == "thorough":
        for sink, restore in (("none", False), ("plain", False), ("gz", True)):
            for n in (1025, 4097, 8193, 16384, 16385, 16386, 32768, 32769, 32770, 49153, 65537, 70000):
                yield c({"n": n, "from": [n - 1]}, sink, restore)
                yield c({"n": n, "upto": [1], "only": [[n // 2, n // 2 + 1]]}, sink, restore)
            yield c({"n": 70000, "from": [2 ** k for k in range(9, 17)], "upto": [2 ** k for k in range(9, 17)],
                     "only": [[2 ** k, 2 ** k + 1] for k in range(9, 17)]}, sink, restore)

CUT_SHAPES = [
    dict(BASE, envs=[{"p": [1, 2]}, {"p": "two"}], lrns=[{"q": 0.25}], triples=[[0, 0, 0], [1, 0, 0]],
         rows=[[{"a": 1, "b": [1, 2], "t": "line\n1"}, {"a": 2}], [{"a": 0.5, "n": [0, (1, {"k": None})]}, {"c": "x"}, {"a": 3}]]),
    dict(BASE, envs=[{}], lrns=[{}, {"family": "L"}], vals=[{"args": (1, 2)}], triples=[[0, 0, 0], [0, 1, 0]], form="triples",
         rows=[[{"reward": i / 4, "action": i % 3} for i in range(6)], [{"reward": float("nan")}, {"reward": 1, "x y": "\u00e9"}]]),
    dict(BASE, envs=[{"p": 1}, {"p": 2}, {"p": 3}], triples=[[0, 0, 0], [1, 0, 0], [2, 0, 0]],
         rows=[[{"reward": (e + 1) * i, "text": f"line\n{i}", "nest": [e, (i, {"k": None})]} for i in range(5)] for e in range(3)]),
]

def gzcut(tier):
    """every kill point inside one gzip member of a small .gz log, then a restored run"""
    if tier == "quick":
        for shape in CUT_SHAPES[:2]:
            for from_end in (1, 2):
                yield dict(shape, sink="gz", restore=True, stamp=True, cut={"from_end": from_end, "mtime": 0x0A0A0A0A})
        # a crash while the first record was written leaves nothing but a partial first record; plain files too
        yield dict(CUT_SHAPES[0], sink="gz", restore=True, stamp=True, cut={"from_end": 0, "mtime": 0x0A0A0A0A})
        yield dict(CUT_SHAPES[1], sink="plain", restore=True, stamp=True, cut={"from_end": 0, "mtime": 0})
        yield dict(CUT_SHAPES[1], sink="plain", restore=True, stamp=True, cut={"from_end": 1, "mtime": 0})
        yield dict(CUT_SHAPES[0], sink="plain", restore=True, stamp=True, cut={"from_end": 3, "mtime": 0})
    else:
        for shape in CUT_SHAPES:
            n_members = 2 + len(shape["envs"]) + len(shape["lrns"]) + len(shape["vals"]) + len(shape["triples"])
            for from_end in range(0, n_members):
                for mtime in (0, 10, 0x0A0A0A0A, 0x12345678):
                    yield dict(shape, sink="gz", restore=True, stamp=True, cut={"from_end": from_end, "mtime": mtime})
                yield dict(shape, sink="plain", restore=True, stamp=True, cut={"from_end": from_end, "mtime": 0})

# ------------------------------------------------------------------------------------------------ evidence
def _walk(v):
    yield v
    if isinstance(v, (list, tuple)):
        for x in v: yield from _walk(x)
    elif isinstance(v, dict):
        for x in v.values(): yield from _walk(x)

def _odd_text(s):
    return any(ord(c) > 126 or ord(c) < 32 for c in s)

def _has_surrogate(s):
    return any(0xD800 <= ord(c) <= 0xDFFF for c in s)

def features(case):
    f = set()
    for rows in case["rows"]:
        if not rows: f.add("triple-without-rows"); continue
        keysets = {frozenset(map(repr, r)) for r in rows}
        if len(keysets) > 1: f.add("ragged")
        if all(len(r) == 0 for r in rows): f.add("all-empty-rows")
        cols = {}
        for r in rows:
            for k, v in r.items():
                cols.setdefault(repr(k), []).append(v)
                if not isinstance(k, str): f.add("non-str-field")
                elif _odd_text(k) or '"' in k: f.add("odd-field-name")
        for k, vs in cols.items():
            seq = [isinstance(v, (list, tuple)) for v in vs]
            if any(seq) and (not all(seq) or len(vs) < len(rows)): f.add("column-mixes-sequence-and-other")
    allvals = [v for rows in case["rows"] for r in rows for v in r.values()]
    pvals = [v for plist in (case["envs"], case["lrns"], case["vals"]) for p in plist for v in p.values()]
    for top in allvals + pvals:
        if isinstance(top, (list, tuple)): f.add("top-sequence")
        if is_rwd(top): f.add("reward-object")
        for v in _walk(top):
            if v is not top and isinstance(v, (list, tuple, dict)) and not is_rwd(top): f.add("nested")
            if isinstance(v, float):
                if not math.isfinite(v): f.add("non-finite")
                elif not v.is_integer(): f.add("float-with-decimals")
                else: f.add("integer-valued-float")
            if isinstance(v, str) and _odd_text(v): f.add("odd-string")
            if isinstance(v, str) and _has_surrogate(v): f.add("lone-surrogate")
    if any(isinstance(v, dict) and not is_rwd(v) for v in allvals + pvals): f.add("dict-value")
    if any(p for plist in (case["envs"], case["lrns"], case["vals"]) for p in plist): f.add("params")
    if any(not isinstance(k, str) for plist in (case["envs"], case["lrns"], case["vals"]) for p in plist for k in p): f.add("non-str-param-key")
    if isinstance(case.get("description"), str) and _has_surrogate(case["description"]): f.add("lone-surrogate")
    if len(case["triples"]) > 1: f.add("several-triples")
    return f

def nontrivial(case):
    if "big" in case or "align" in case or "cut" in case: return True
    if "abort" in case: return case["abort"]["at"] >= 1
    if "workers" in case: return True
    return bool(features(case) & {"ragged", "nested", "dict-value", "non-finite", "odd-string", "odd-field-name", "non-str-field"})

def classes(case):
    if "big" in case:
        return ["big:" + case["big"]["kind"], "sink=" + case["sink"]] + (["restored"] if case["restore"] else [])
    if "cut" in case:
        return [f"cut-member-from-end={case['cut']['from_end']}" if case["cut"]["from_end"] else "cut-first-record", "sink=" + case["sink"], f"mtime=0x{case['cut']['mtime']:08x}", f"triples={len(case['triples'])}"]
    if "align" in case:
        return [f"aligned-member={case['align']['member']}", f"blocks={case['align'].get('blocks', 1)}", f"triples={len(case['triples'])}"]
    if "workers" in case:
        return [f"processes={case['procs']}", f"maxchunksperchild={case['mcpc']}", f"triples={len(case['triples'])}"]
    if "abort" in case:
        return [f"aborted-evaluation={min(case['abort']['at'], 3)}{'+' if case['abort']['at'] >= 3 else ''}", f"rows-before-abort={case['abort']['rows']}",
                "sink=" + case["sink"], "form=" + case["form"]] + (["completed-by-a-later-run"] if case["restore"] and case["sink"] != "none" else [])
    out = sorted(features(case))
    if case.get("stamp"): out.append("stamped")
    out.append("sink=" + case["sink"])
    if case["restore"]: out.append("restored")
    out.append("form=" + case["form"])
    return out

def sample_view(v):
    """evidence files are written with allow_nan=False: show non-finite floats as text there (replay files keep the floats)"""
    if isinstance(v, float) and not math.isfinite(v): return f"<float {v!r}>"
    if isinstance(v, list): return [sample_view(x) for x in v]
    if isinstance(v, tuple): return tuple(sample_view(x) for x in v)
    if isinstance(v, dict): return {k: sample_view(x) for k, x in v.items()}
    return v

def classify(case, exc):
    if isinstance(exc, Violation) and str(exc).startswith("all-empty-output") and "all-empty-rows" in features(case):
        return "C07-all-empty-rows"
    return None

SUBCHECKS = [
    Sub(name="workers", run=run, enumerate=workers, nontrivial=nontrivial, classes=classes, classify=classify, quick_shards=2, thorough_shards=4,
        what="fixed experiments whose rows hold every kind of reward object (BinaryReward values other than 1 included) run in-process and through really spawned workers (processes 2 / maxchunksperchild 1; thorough more): model oracle on both, tables equal as row multisets"),
    Sub(name="aborted", run=run, strategy=aborted_cases, nontrivial=nontrivial, classes=classes, classify=classify, sample_view=sample_view,
        quick=600, thorough=12000, quick_shards=2,
        what="Ctrl-C (KeyboardInterrupt) inside the k-th of 2-6 evaluations after j rows: run() returns; every evaluation completed before has exactly its rows and its components' params rows, no unstarted evaluation has rows; Result(no file) == Result(plain/.gz file) == Result.from_file; a later run on the file completes the tables"),
    Sub(name="mem", run=run, strategy=mem_cases, nontrivial=nontrivial, classes=classes, classify=classify, sample_view=sample_view,
        quick=3000, thorough=60000, quick_shards=4,
        what="run without a result file: the four tables vs the normalised model of what the doubles produced"),
    Sub(name="file", run=run, strategy=file_cases, nontrivial=nontrivial, classes=classes, classify=classify, sample_view=sample_view,
        quick=1200, thorough=24000, quick_shards=4,
        what="plain/.gz result file, fresh and restored: tables vs model, Result(no file) == Result(file) == Result.from_file == restored run"),
    Sub(name="shapes", run=run, enumerate=shapes, nontrivial=nontrivial, classes=classes, classify=classify, sample_view=sample_view, exhaustive=True, quick_shards=1,
        what="complete enumeration: one column ('a' and 'rewards') over all sequences of 1..3 rows drawn from 10 value shapes (absent, None, int, float, str, list, tuple, empty list, dict, nested list)"),
    Sub(name="bigfile", run=run, enumerate=bigfile, nontrivial=nontrivial, classes=classes, classify=classify, quick_shards=1, thorough_shards=8,
        what="a single record of the result file longer than 1 MiB (many rows, very long cells, a very long params value) and records of exactly 2**20-1 / 2**20 / 2**20+1 characters, plain and .gz, fresh and restored: model + three-route oracle"),
    Sub(name="longrows", run=run, enumerate=longrows, nontrivial=nontrivial, classes=classes, classify=classify, quick_shards=1, thorough_shards=8,
        what="one evaluation of 16385..40000 rows (thorough 1025..70000) whose fields first appear, disappear or occur only once late in the evaluation (around rows 2**9..2**16); no file, plain, .gz, restored: model + three-route oracle"),
    Sub(name="gzcut", run=run, enumerate=gzcut, nontrivial=nontrivial, classes=classes, classify=classify, quick_shards=2, thorough_shards=8,
        what="restored run on a .gz or plain log that was cut at EVERY byte offset inside one gzip member / line (quick: the last two members of two small .gz logs with header mtime bytes 0x0a, the first record of a .gz and of a plain log, two more plain lines; thorough: every record of three logs, .gz x 4 mtimes and plain): the run returns, completed evaluations keep the rows of the first run, the others come from the second run, from_file agrees (one case = one sweep of 70-300 restored runs)"),
    Sub(name="gzalign", run=run, enumerate=gzalign, nontrivial=nontrivial, classes=classes, classify=classify, quick_shards=1, thorough_shards=4,
        what="restored run on a complete .gz file whose description is padded until a chosen non-final gzip member ends on a multiple of 4096 bytes; rows carry the number of the run that produced them, so a completed triple that is dropped and evaluated again changes the table (cases where no padding aligns the member are inconclusive)"),
]
