"""C02 Interrupted experiments resume without losing or repeating work (fault enumeration).

Per case: build a small experiment from a descriptor (vlib/comps_c02.py), run it uninterrupted into a result file
(plain or .gz) -> log bytes B and Result R. Then for each crash offset k: write B[:k] into a fresh file, build a
FRESH twin of the experiment (all components wrapped by the recorder of comps_c02), run it with that file and check

  (1) the Result the resumed run returns, and Result.from_file(final file), equal R: the four tables (column sets and
      all rows, NaN-aware, predict_time/learn_time dropped) and .experiment;
  (2) the triples the resumed run evaluated (recorder side file, also written from worker processes) are exactly the
      triples whose I record is not complete in B[:k], each once - in particular none that is complete in B[:k];
  (3) in the final file every (env,lrn,val) id triple and every E/L/V id occurs exactly once, the version record is the
      first record and occurs once, the experiment record occurs once;
  (4) the resumed run neither raises nor logs an exception, and Result.from_file on the final file works.

A chain of cuts is also generated (crash, resume, crash the resumed run's log, resume again): every element of the
chain is checked the same way against the log it was cut from.

"complete in B[:k]": plain file - all bytes of the line except possibly its line feed are in the prefix (the JSON text
of the record is complete); .gz file - the whole gzip member of the line is in the prefix (coba's DiskSink(batch=1)
opens, writes one member and closes the file for every record, so a killed run leaves whole members plus a prefix of
one member; the prefixes are taken from the real file the run produced, including its trailing empty member). That the
real code does leave such files is not assumed but checked by the 'kill' sub-check, which kills a real child process and
resumes from whatever it left (plain, .gz and paths that only contain ".gz").
"""
import os, sys, json, gzip, zlib, shutil, tempfile, itertools, copy, subprocess, functools
from hypothesis import strategies as st

from vlib.core import Sub
from vlib.util import Violation, Inconclusive, require, use_repo, same, canon, REPO
use_repo()

from vlib import comps_c02 as C

from coba.experiments import Experiment
from coba.context import CobaContext, NullLogger
from coba.pipes import ListSink
from coba.results import Result

ID = "C02"
LEVEL = "fault_enumeration"
DESIGN_REF = "DESIGN.md section 6, C02"
RULE = ("a case = experiment descriptor (1-3 environments x 1-3 learners x 1-2 evaluators, cross product or explicit tuple "
        "list, 2-8 distinct triples, log 0.5-8 KB) + file kind (plain/.gz) + crash points. 'sweep': one case covers k=0, every "
        "record (line / gzip member) boundary and first byte / last byte / a generated interior byte of every record; in the "
        "thorough tier every byte offset when the log is <= 2 KB. 'point': one generated crash point named by record type, "
        "ordinal, position class and fraction, optionally followed by a second crash of the resumed run's log, resumed "
        "in-process with a generated maxtasksperchunk. 'bytes': fixed descriptors, EVERY byte offset of the plain and of the "
        ".gz log, enumerated in blocks of 48 offsets (complete for those logs). 'multiproc': one crash point, resumed with "
        "2 worker processes / maxchunksperchild / maxtasksperchunk. 'kill': no truncation - a real child process runs the experiment "
        "and dies by os._exit when evaluation n+1 starts (n generated); the file it left is resumed and the n finished triples must "
        "not be evaluated again. 'big': fixed experiments with 360 KB logs and 70-200 KB records, cuts around the 64 KiB blocks "
        "(4 KiB for gz) the tail search of the restore works in. File kinds everywhere: log.txt, log.gz and paths that merely "
        "contain '.gz' (log.gz.bak, runs.gz.d/log.txt - gzip by coba's rule). In 'point'/'multiproc' (1 in 2) and 'sweep' (1 in 3) the "
        "records of the uninterrupted log are first permuted the way worker output can arrive in a multi-process run (version and "
        "experiment record stay first; E/L/V/I records in a generated order), then cut. 1 in 4 generated experiments with >= 2 "
        "environments use shuffles of one chunk()ed base (one task chunk); re-runs use maxtasksperchunk 0..5; 'chunked' enumerates "
        "fixed chunked experiments x maxtasksperchunk x every record boundary. A case is non-trivial when a crash offset lies strictly "
        "inside a record or between two I records; distinct = distinct canonical JSON of the case")
ASSUMPTIONS = [
    "the re-run uses 'the same experiment': an identically constructed twin (same components in the same order, same seed, same description)",
    "triples of an experiment are pairwise distinct (a triple listed twice is recorded twice even without interruption)",
    "components do not raise (a triple whose evaluation failed is not recorded and is legitimately evaluated again)",
    "experiment seeds are integers (seed=None draws from the clock)",
    "truncation sub-checks: interruption = the file keeps a byte prefix of what the killed run had written; 'kill' sub-check: the process dies by os._exit (no Python cleanup, OS keeps what was written) at the start of an evaluation; power loss / lost page cache is not modelled",
    "plain file: a record counts as recorded when all bytes of its line except possibly the line feed are on disk; .gz file: when its whole gzip member is on disk",
    "predict_time / learn_time columns are not compared",
    "multi-process re-runs sample OS schedules, they do not enumerate them",
]

TIMING = ("predict_time", "learn_time")
BLOCK = 48

# =============================================================================================== running coba
_ABSENT = object()
_CTX_KEYS = ("_api_keys", "_cacher", "_logger", "_experiment", "_search_paths", "_store", "_learning_info", "_config_backing")

class Env:
    """Per-case sandbox: temp dir outside /repo and /verif, no .coba, NullLogger with a capturing sink, CobaContext restored."""
    def __enter__(self):
        self.dir = tempfile.mkdtemp(prefix="c02-")
        self.cwd = os.getcwd()
        os.chdir(self.dir)
        self.saved = {k: CobaContext.__dict__.get(k, _ABSENT) for k in _CTX_KEYS}     # the state lives on the class, defaults on the metaclass
        CobaContext.search_paths = [self.dir]
        CobaContext.store = {}
        CobaContext._learning_info = {}
        self.n = 0
        self.name = None            # file name (may contain a directory) overriding log.txt / log.gz; any name containing ".gz" is a gzip file
        self.roots = {}
        from vlib.core import load_known
        self.listed = set(load_known(ID))
        return self
    def __exit__(self, *exc):
        for k, v in self.saved.items():
            if v is not _ABSENT: setattr(CobaContext, k, v)
            elif k in CobaContext.__dict__: delattr(CobaContext, k)
        os.chdir(self.cwd)
        shutil.rmtree(self.dir, ignore_errors=True)
        return False
    def fresh(self, gz):
        self.n += 1
        d = os.path.join(self.dir, "r%d" % self.n)
        path = os.path.join(d, self.name or ("log.gz" if gz else "log.txt"))
        os.makedirs(os.path.dirname(path))
        self.roots[path] = d
        return path, os.path.join(d, "side")
    def drop(self, path):
        shutil.rmtree(self.roots.pop(path), ignore_errors=True)

def run_experiment(desc, path, side, config=None):
    """Build a fresh twin and run it. Returns (Result, exceptions logged during the run)."""
    logged = []
    CobaContext.logger = NullLogger(ListSink(logged))
    CobaContext.store = {}
    cfg = {"processes": 1, "maxchunksperchild": 0, "maxtasksperchunk": 0}
    cfg.update(config or {})
    args, kwargs = C.build_args(desc, side)
    exp = Experiment(*args, **kwargs)
    res = exp.run(path, quiet=True, seed=desc["seed"], **cfg)
    return res, [m for m in logged if "WARNING" not in str(m)]

# =============================================================================================== log structure
def split_records(data, gz):
    """[(start, end, text-or-None)] of the complete records (lines incl. line feed / gzip members) of a complete log"""
    out = []
    if not gz:
        pos = 0
        while pos < len(data):
            nl = data.find(b"\n", pos)
            if nl < 0: nl = len(data)                      # a last line without line feed (a complete log may end like that)
            out.append((pos, min(nl + 1, len(data)), data[pos:nl].decode("utf-8")))
            pos = nl + 1
        return out
    pos = 0
    while pos < len(data):
        d = zlib.decompressobj(wbits=31)
        text = d.decompress(data[pos:])
        if not d.eof:
            raise ValueError("gz log does not end at a member boundary")
        end = len(data) - len(d.unused_data)
        lines = text.decode("utf-8").split("\n")
        if len(lines) > 1 and lines[-1] == "": lines.pop()
        for ln in lines:                                   # coba writes one member per record; if a member holds several
            out.append((pos, end, ln))                     # records they all share its span (none is on disk before its end)
        pos = end
    return out

@functools.lru_cache(maxsize=512)
def _head(text):
    """(record type, ids of an I record or None, I record without rows?)"""
    if text is None or text.strip() == "": return ("gztail", None, False)
    o = json.loads(text)
    if o[0] != "I": return (str(o[0]), None, False)
    return ("I", tuple(o[1]), not (o[2].get("_packed") or {k: v for k, v in o[2].items() if k != "_packed"}))

def rec_type(text):
    return _head(text)[0]

def complete_upto(records, k, gz):
    """indices of the records that count as recorded in the prefix of length k"""
    return [i for i, (s, e, _) in enumerate(records) if (k >= e if gz else k >= e - 1)]

def i_ids(text):
    return _head(text)[1]

def is_empty_I(text):
    return _head(text)[2]

def read_lines(path, gz):
    opener = gzip.open if gz else open
    with opener(path, "rt", encoding="utf-8") as f:
        return [ln for ln in f.read().split("\n") if ln.strip()]

# =============================================================================================== result comparison
def norm_table(table):
    cols = [c for c in table.columns if c not in TIMING]
    rows = []
    for d in table.to_dicts():
        rows.append({c: d[c] for c in cols})
    return {"columns": sorted(cols), "rows": rows}

def norm_result(res):
    return {"environments": norm_table(res.environments), "learners": norm_table(res.learners),
            "evaluators": norm_table(res.evaluators), "interactions": norm_table(res.interactions),
            "experiment": dict(res.experiment)}

def _key(row):
    return tuple(repr(row.get(c)) for c in ("environment_id", "learner_id", "evaluator_id", "index"))

def compare_results(got, want, what, **info):
    for name in ("environments", "learners", "evaluators", "interactions"):
        g, w = got[name], want[name]
        require(g["columns"] == w["columns"], f"{what}: columns of the {name} table differ from the uninterrupted run", got=g["columns"], want=w["columns"], **info)
        gr, wr = sorted(g["rows"], key=_key), sorted(w["rows"], key=_key)
        require(len(gr) == len(wr), f"{what}: the {name} table has {len(gr)} rows, the uninterrupted run has {len(wr)}", **info)
        for a, b in zip(gr, wr):
            require(same(a, b), f"{what}: a row of the {name} table differs from the uninterrupted run", got=a, want=b, **info)
    require(same(got["experiment"], want["experiment"]), f"{what}: Result.experiment differs from the uninterrupted run",
            got=got["experiment"], want=want["experiment"], **info)

# =============================================================================================== the oracle for one cut
KNOWN_EMPTY = "C02-empty-record-reevaluated"
# The next three ids are NOT in the proposed known-findings file (both root causes have a proposed patch). They exist so that,
# should a patch be declined, the integrator can list the id and the search keeps going at all other offsets.
KNOWN_TORN_PLAIN = "C02-torn-record-plain"      # plain log cut strictly inside a record: restore or the final read raises
KNOWN_TORN_GZ = "C02-torn-record-gz"            # .gz log cut strictly inside a gzip member: restore raises
KNOWN_NO_EXPERIMENT = "C02-no-experiment-record"  # log cut right after the version record: experiment record never written
TORN_ERRORS = ("JSONDecodeError", "EOFError", "BadGzipFile", "RuntimeError", "error")

class Known(Violation):
    """a violation that matches, by construction of the message and the offending triples, one listed finding"""
    def __init__(self, fid, msg):
        super().__init__(msg)
        self.fid = fid

def resume_and_check(env, desc, gz, log, records, k, config=None):
    """Cut `log` (complete, records = split_records(log)) at k, resume with a fresh twin, check (1)-(4) against `want`.
    Returns the bytes of the final file."""
    ids = C.assigned_ids(desc)                       # tag triple -> id triple
    tags = {v: t for t, v in ids.items()}
    done = complete_upto(records, k, gz)
    done_ids = [i_ids(records[i][2]) for i in done if rec_type(records[i][2]) == "I"]
    empty_ids = {i_ids(t) for _, _, t in records if rec_type(t) == "I" and is_empty_I(t)}
    where = dict(k=k, of=len(log), gz=gz, cut=describe_cut(records, k, gz))
    if env.name: where["name"] = env.name
    torn = k == 0 or any(s_ < k < e_ for s_, e_, _ in records)     # the prefix ends strictly inside a record (or holds nothing)
    no_exp = k == records[0][1] or not any(rec_type(t) == "experiment" for _, _, t in records)   # (second clause: chained cut of such a log)
    return check_resume(env, desc, gz, log[:k], done_ids, empty_ids, where, torn, no_exp, config)

def check_resume(env, desc, gz, prefix, done_ids, empty_ids, where, torn=False, no_exp=False, config=None):
    """Resume from a file holding `prefix` with a fresh twin and check (1)-(4); done_ids = id triples recorded in the prefix."""
    ids = C.assigned_ids(desc)
    path, side = env.fresh(gz)
    with open(path, "wb") as f:
        f.write(prefix)
    try:
        try:
            res, logged = run_experiment(desc, path, side, config)
        except Exception as e:
            msg = f"(4) resuming from the cut file raised {type(e).__name__}: {str(e)[:200]} | " + ", ".join(f"{a}={b!r}" for a, b in where.items())
            if torn and type(e).__name__ in TORN_ERRORS:
                raise Known(KNOWN_TORN_GZ if gz else KNOWN_TORN_PLAIN, msg) from e
            raise Violation(msg) from e
        require(not logged, "(4) the resumed run logged an exception", logged=[str(m)[:300] for m in logged][:3], **where)
        try:
            from_file = Result.from_file(path)
        except Exception as e:
            raise Violation(f"(4) Result.from_file on the final file raised {type(e).__name__}: {str(e)[:200]} | " + ", ".join(f"{a}={b!r}" for a, b in where.items())) from e
        with open(path, "rb") as f:
            final = f.read()
        lines = read_lines(path, gz)
        evaluated = C.read_side(side)
    finally:
        env.drop(path)

    # (1)
    want = env.want
    known = None
    got, got_file = norm_result(res), norm_result(from_file)
    if no_exp and got["experiment"] == {} and got_file["experiment"] == {} and want["experiment"] != {}:
        known = Known(KNOWN_NO_EXPERIMENT, "(1) Result.experiment is {} after resuming from a log that holds only the version record | " + ", ".join(f"{a}={b!r}" for a, b in where.items()))
        known.final = final
        got["experiment"] = got_file["experiment"] = want["experiment"]
        if KNOWN_NO_EXPERIMENT not in env.listed: raise known
    compare_results(got, want, "(1) resumed Result", **where)
    compare_results(got_file, want, "(1) Result.from_file(final file)", **where)
    # (2)
    redone = [t for t in evaluated if ids.get(t) in done_ids]
    if redone:
        bad = [t for t in redone if ids[t] not in empty_ids]
        msg = "(2) triples whose I record is complete in the interrupted file were evaluated again"
        if bad:
            require(False, msg, triples=[ids[t] for t in bad], **where)
        known = known or Known(KNOWN_EMPTY, msg + f" (all of them have an I record without rows) | triples={[ids[t] for t in redone]}, " + ", ".join(f"{a}={b!r}" for a, b in where.items()))
    missing = sorted(t for t, i in ids.items() if i not in done_ids)
    require(sorted(set(evaluated)) == sorted(set(missing) | set(redone)), "(2) the resumed run did not evaluate exactly the triples missing from the cut file",
            evaluated=sorted(evaluated), missing=missing, **where)
    twice = sorted({t for t in evaluated if evaluated.count(t) > 1})
    require(not twice, "(2) the resumed run evaluated a triple more than once", triples=twice, **where)

    # (3)
    objs = [json.loads(ln) for ln in lines]
    require(objs and objs[0] == ["version", 4], "(3) the final file does not start with the version record", first=lines[:1], **where)
    counts = {}
    for o in objs:
        key = (o[0], tuple(o[1]) if o[0] == "I" else (o[1] if o[0] in ("E", "L", "V") else None))
        counts[key] = counts.get(key, 0) + 1
    dups = sorted((k_ for k_, n in counts.items() if n > 1), key=repr)
    if dups:
        bad = [d for d in dups if not (d[0] == "I" and d[1] in empty_ids)]
        msg = "(3) records occur more than once in the final file"
        if bad:
            require(False, msg, records=bad, **where)
        if known is None:
            known = Known(KNOWN_EMPTY, msg + f" (all are I records without rows) | records={dups}, " + ", ".join(f"{a}={b!r}" for a, b in where.items()))
    require(counts.get(("experiment", None), 0) == 1 or (known is not None and known.fid == KNOWN_NO_EXPERIMENT), "(3) the final file has no experiment record", **where)
    want_keys = {("I", i) for i in ids.values()} | {("E", i[0]) for i in ids.values()} | {("L", i[1]) for i in ids.values()} | {("V", i[2]) for i in ids.values()}
    have = {k_ for k_ in counts if k_[0] in ("I", "E", "L", "V")}
    require(have == want_keys, "(3) the final file does not hold exactly one record per environment, learner, evaluator and triple",
            missing=sorted(want_keys - have, key=repr), extra=sorted(have - want_keys, key=repr), **where)
    if known is not None:
        known.final = final
        raise known
    return final

def describe_cut(records, k, gz):
    for i, (s, e, t) in enumerate(records):
        if s < k < e:
            return f"inside record {i} ({rec_type(t)}) bytes {s}..{e}"
        if k == e:
            nxt = rec_type(records[i + 1][2]) if i + 1 < len(records) else "end"
            return f"after record {i} ({rec_type(t)}), before {nxt}"
    return "empty file" if k == 0 else "?"

# =============================================================================================== baseline
def baseline(env, desc, gz):
    path, side = env.fresh(gz)
    res, logged = run_experiment(desc, path, side)
    if logged:   # the generator is meant to produce experiments that run cleanly: a harness error, not a violation
        raise RuntimeError("harness: the uninterrupted run logged an exception: " + " / ".join(str(m)[:300] for m in logged[:3]))
    with open(path, "rb") as f:
        log = f.read()
    evaluated = C.read_side(side)
    ids = C.assigned_ids(desc)
    if sorted(evaluated) != sorted(ids):
        raise Violation(f"the uninterrupted run did not evaluate every triple exactly once: {sorted(evaluated)} vs {sorted(ids)}")
    env.want = norm_result(res)
    env.drop(path)
    return log, split_records(log, gz)

def offsets_quick(records, fracs):
    ks = {0}
    for i, (s, e, _) in enumerate(records):
        ks.add(e)
        n = e - s
        if n >= 2:
            ks.add(s + 1); ks.add(e - 1)
        if n >= 3:
            f = fracs[i % len(fracs)] if fracs else 0.5
            ks.add(s + 1 + min(n - 3, int(f * (n - 2))))
    return sorted(ks)

def resolve(records, sel):
    """crash offset named by a selector {rtype, ord, pos, frac}"""
    if sel["pos"] == "zero":
        return 0
    idx = [i for i, (_, _, t) in enumerate(records) if rec_type(t) == sel["rtype"]] or list(range(len(records)))
    s, e, _ = records[idx[sel["ord"] % len(idx)]]
    n = e - s
    if sel["pos"] == "boundary" or n < 2: return e
    if sel["pos"] == "first": return s + 1
    if sel["pos"] == "last": return e - 1
    return s + 1 + min(max(n - 3, 0), int(sel["frac"] * (n - 2)))

def permute_log(log, records, gz, perm):
    """The log a MULTI-PROCESS run could have written: same records, other arrival order. The version record and the experiment
    record stay first and second (the main process writes them before any worker output), a trailing empty gzip member stays
    last; every other record (E/L/V/I) may arrive in any order. perm = Fisher-Yates choices as data. Returns (log, records)."""
    if not perm or len({(s_, e_) for s_, e_, _ in records}) != len(records):
        return log, records
    head = [r for r in records[:2]]
    tail = [r for r in records[2:] if rec_type(r[2]) == "gztail"]
    body = [r for r in records[2:] if rec_type(r[2]) != "gztail"]
    for i in range(len(body) - 1, 0, -1):
        j = perm[i % len(perm)] % (i + 1)
        body[i], body[j] = body[j], body[i]
    out, recs, pos = [], [], 0
    for s_, e_, t in head + body + tail:
        out.append(log[s_:e_])
        recs.append((pos, pos + e_ - s_, t))
        pos += e_ - s_
    return b"".join(out), recs

def run_offsets(env, desc, gz, log, records, ks, config=None):
    """check every offset; a listed finding does not stop the enumeration, anything else does"""
    known = None
    for k in ks:
        try:
            resume_and_check(env, desc, gz, log, records, k, config)
        except Known as e:
            known = known or e
    if known is not None:
        raise known

# =============================================================================================== sub-check bodies
def run_sweep(case):
    desc, gz = case["desc"], case["gz"]
    with Env() as env:
        env.name = case.get("name")
        log, records = baseline(env, desc, gz)
        log, records = permute_log(log, records, gz, case.get("perm"))
        if case.get("all") and len(log) <= 2048:
            ks = range(0, len(log) + 1)
        else:
            ks = offsets_quick(records, case.get("fracs") or [0.5])
        run_offsets(env, desc, gz, log, records, ks, {"maxtasksperchunk": case.get("mt", 0)})

def run_point(case):
    desc, gz = case["desc"], case["gz"]
    with Env() as env:
        env.name = case.get("name")
        log, records = baseline(env, desc, gz)
        log, records = permute_log(log, records, gz, case.get("perm"))
        known = None
        for cut in case["cuts"]:
            k = resolve(records, cut)
            try:
                log = resume_and_check(env, desc, gz, log, records, k, case.get("config"))
            except Known as e:
                known = known or e
                log = getattr(e, "final", None)
                if log is None: break                  # the file was unusable: nothing to cut a second time
            records = split_records(log, gz)
        if known is not None:
            raise known

def run_bytes(case):
    desc, gz = FIXED[case["fixed"]], case["gz"]
    with Env() as env:
        log, records = baseline(env, desc, gz)
        lo = case["block"] * BLOCK                      # blocks are sized from a dry run, see enumerate_bytes
        run_offsets(env, desc, gz, log, records, range(lo, min(lo + BLOCK, len(log) + 1)))

def run_kill(case):
    """REAL interruption: a child process runs the experiment in-process and dies without any cleanup (os._exit inside the
    evaluator double) when evaluation number kill_after+1 starts. By then coba has handed the records of the kill_after finished
    triples to the sink (the pipeline is lazy: a triple is only started after the previous record was written and flushed), so
    they must survive: the file the dead process left is resumed as it is and must not evaluate those triples again."""
    desc, gz = case["desc"], case["gz"]
    with Env() as env:
        env.name = case.get("name")
        log, records = baseline(env, desc, gz)
        empty_ids = {i_ids(t) for _, _, t in records if rec_type(t) == "I" and is_empty_I(t)}
        path, side = env.fresh(gz)
        arg = json.dumps({"desc": desc, "path": path, "side": side, "kill_after": case["kill_after"]})
        try:
            p = subprocess.run([sys.executable, "-W", "ignore", "-m", "vlib.comps_c02", arg], cwd=env.dir, env=dict(os.environ),
                               stdout=subprocess.PIPE, stderr=subprocess.STDOUT, timeout=600)
            require(p.returncode in (0, 17), "the run that was to be killed failed by itself", rc=p.returncode, output=p.stdout.decode("utf-8", "replace")[-600:])
            finished = C.read_side(side)
            prefix = b""
            if os.path.exists(path):
                with open(path, "rb") as f:
                    prefix = f.read()
        finally:
            env.drop(path)
        ids = C.assigned_ids(desc)
        require(len(finished) == min(case["kill_after"], len(ids)) and (p.returncode == 17) == (case["kill_after"] < len(ids)),
                "harness: the child was not killed where planned", finished=finished, rc=p.returncode)
        where = dict(killed_when_starting_evaluation=case["kill_after"] + 1, file_bytes=len(prefix), gz=gz, finished=[ids[t] for t in finished])
        if env.name: where["name"] = env.name
        check_resume(env, desc, gz, prefix, [ids[t] for t in finished], empty_ids, where)

def big_offsets(records, gz, tier):
    """crash points for logs/records beyond the 64 KiB blocks coba's tail search works in (plain) / the 4 KiB read steps (gz)"""
    ks = set()
    ps = [1, 65534, 65535, 65536, 65537, 65538, 131071, 131072, 131073, 131072 + 777] if not gz else [1, 4095, 4096, 4097, 8191, 8192, 8193, 65536]
    if tier == "thorough":
        ps += [p + d for p in ((65536, 131072) if not gz else (4096, 8192)) for d in (-9, -5, -3, 3, 5, 9)]
    for s_, e_, t in records:
        n = e_ - s_
        for p_ in ps:
            if p_ < n: ks.add(s_ + p_)
        if n >= 2 and (e_ > 65536 or n > 4096):
            ks.update({s_ + 1, s_ + n // 2, e_ - 1, e_})
            if gz and n > 16: ks.update({e_ - 8, e_ - 4})
    return sorted(ks)

def run_inflate(case):
    desc = inflate_desc(case["inflate"], case["width"])
    with Env() as env:
        log, records = baseline(env, desc, True)
        big = max(range(len(records)), key=lambda i: len(records[i][2]))
        s_, e_, t = records[big]
        if rec_type(t) != case["inflate"] or big >= len(records) - 3 or len(t) <= 2**20 or e_ - s_ > 5 * 4096 + len(t) // 1000:
            raise RuntimeError("harness: the descriptor no longer gives a > 1 MiB record compressed > 200:1 with records behind it")
        ks = sorted({k for k in offsets_quick(records, [0.5]) if k >= e_ - 1} | {s_ + 1, (s_ + e_) // 2, len(log)})
        run_offsets(env, desc, True, log, records, ks)

def run_big(case):
    if "inflate" in case:
        return run_inflate(case)
    desc, gz = BIG[case["big"]], case["gz"]
    with Env() as env:
        env.name = case.get("name")
        log, records = baseline(env, desc, gz)
        if len(log) <= 2 * 65536 or max(e - s for s, e, _ in records) <= 65536:
            raise RuntimeError("harness: the big descriptor no longer produces a log > 128 KiB with a record > 64 KiB")
        ks = big_offsets(records, gz, case["tier"])
        run_offsets(env, desc, gz, log, records, ks[case["part"]::case["parts"]])

# =============================================================================================== descriptors
RECORDS = [["reward"], ["reward", "action"], ["reward", "action", "probability"], ["reward", "context"], ["reward", "actions"],
           ["reward", "rewards"], ["action"], ["reward", "time"]]

def one_in(n):
    """True with probability about 1/n (Hypothesis favours the first element and small integers, so the rare value goes last)"""
    return st.sampled_from([False] * (n - 1) + [True])

@st.composite
def env_descs(draw, small):
    kind = draw(st.sampled_from(["grid", "grid", "grid", "linear", "linear", "neighbors", "emptyish"]))
    nmax = 3 if small else 6
    if kind == "emptyish":
        if not draw(one_in(4)):     # most of the time a normal environment: rows-less records are a listed finding
            kind = "grid"
        elif draw(st.booleans()):
            return {"kind": "empty", "label": draw(st.integers(0, 3))}
        else:
            return {"kind": "linear", "n": draw(st.integers(1, 3)), "na": 2, "seed": draw(st.integers(1, 9)), "filters": [["take_strict", 50]]}
    if kind == "grid":
        return {"kind": "grid", "n": draw(st.integers(1, nmax)), "na": draw(st.integers(1, 4)), "seed": draw(st.integers(0, 99)),
                "ctx": draw(st.sampled_from(["dense", "none", "str", "sparse", "scalar"])), "act": draw(st.sampled_from(["int", "str", "tuple"])),
                "extra": draw(one_in(4))}
    d = {"kind": kind, "n": draw(st.integers(1, nmax)), "na": draw(st.integers(2, 3)), "seed": draw(st.integers(1, 50)),
         "ncf": draw(st.integers(1, 2)), "naf": draw(st.integers(1, 2))}
    f = draw(st.sampled_from(["none", "shuffle", "take", "shuffle+take"]))
    fl = []
    if "shuffle" in f: fl.append(["shuffle", draw(st.integers(1, 9))])
    if "take" in f:
        d["more"] = draw(st.integers(0, 3)); fl.append(["take"])
    d["filters"] = fl
    return d

@st.composite
def lrn_descs(draw):
    kind = draw(st.sampled_from(["random", "epsilon", "ucb", "hist", "hist", "pmf"]))
    if kind == "epsilon": return {"kind": kind, "eps": draw(st.sampled_from([0.0, 0.1, 0.5]))}
    if kind == "hist": return {"kind": kind, "k": draw(st.integers(1, 5)), "info": draw(st.booleans())}
    if kind == "pmf": return {"kind": kind, "lean": draw(st.sampled_from([0.5, 0.8, 1.0]))}
    return {"kind": kind}

@st.composite
def val_descs(draw, timing=True):
    kind = draw(st.sampled_from(["seq", "seq", "seq", "func", "rows"]))
    if kind == "func": return {"kind": "func"}
    if kind == "rows": return {"kind": "rows", "every": draw(st.integers(1, 3))}
    rec = list(draw(st.sampled_from(RECORDS if timing else [r for r in RECORDS if "time" not in r])))
    learn = "on" if "time" in rec else draw(st.sampled_from(["on", "on", None]))
    ev = None if draw(one_in(10)) else "on"          # eval=None with nothing else recorded gives a record without rows
    return {"kind": "seq", "record": rec, "learn": learn, "eval": ev, "seed": draw(st.sampled_from([None, None, 1, 7]))}

@st.composite
def descriptors(draw, small=False, timing=True):
    ne, nl, nv = draw(st.integers(1, 3)), draw(st.integers(1, 3)), draw(st.integers(1, 2))
    shape = draw(st.sampled_from(["cross", "cross", "tuples"]))
    if shape == "cross":
        while ne * nl * nv > 8:
            if ne >= nl and ne >= nv and ne > 1: ne -= 1
            elif nl >= nv and nl > 1: nl -= 1
            else: nv -= 1
        if ne * nl * nv < 2:
            if draw(st.booleans()): ne = 2
            else: nl = 2
    envs = [draw(env_descs(small)) for _ in range(ne)]
    if ne >= 2 and draw(one_in(4)):      # the environments are shuffles of one chunk()ed base: coba puts their tasks into ONE chunk
        base = {"kind": "linear", "n": draw(st.integers(1, 4)), "na": 2, "seed": draw(st.integers(1, 9)), "ncf": 1, "naf": 1, "group": 0}
        keep = draw(st.sampled_from([0, 0, 1])) if ne == 3 else 0       # sometimes one environment stays outside the chunk
        envs = envs[:keep] + [dict(base, shuffle=i + 1) for i in range(ne - keep)]
    lrns = [draw(lrn_descs()) for _ in range(nl)]
    vals = [draw(val_descs(timing)) for _ in range(nv)]
    desc = {"envs": envs, "lrns": lrns, "vals": vals, "shape": shape,
            "description": draw(st.sampled_from([None, None, "resume test", "café ☃ \"q\" \\ \n x"])), "seed": draw(st.integers(1, 5))}
    if shape == "tuples":
        allt = [(e, l, v) for e in range(ne) for l in range(nl) for v in range(nv)]
        if len(allt) < 2:
            desc["lrns"].append(draw(lrn_descs())); nl += 1
            allt = [(e, l, v) for e in range(ne) for l in range(nl) for v in range(nv)]
        perm = draw(st.permutations(allt))
        n = draw(st.integers(2, min(8, len(allt))))
        desc["tuples"] = list(perm[:n])
    return desc

NAMES = [None, None, "log.gz.bak", "runs.gz.d/log.txt"]      # DiskSink/DiskSource treat every path CONTAINING ".gz" as gzip

@st.composite
def file_kinds(draw):
    gz = draw(st.sampled_from([True, False]))
    return {"gz": gz, "name": draw(st.sampled_from(NAMES)) if gz else None}

POS = ["boundary", "boundary", "first", "last", "interior", "interior"]
RTYPES = ["I", "I", "I", "I", "E", "L", "V", "experiment", "version", "gztail"]

@st.composite
def selectors(draw):
    if draw(one_in(40)):
        return {"rtype": "version", "ord": 0, "pos": "zero", "frac": 0.0}
    return {"rtype": draw(st.sampled_from(RTYPES)), "ord": draw(st.integers(0, 7)), "pos": draw(st.sampled_from(POS)),
            "frac": draw(st.integers(0, 99)) / 100}

@st.composite
def perms(draw, one_in_n):
    """None (records in the order the in-process run wrote them) or Fisher-Yates choices for permute_log"""
    if not draw(st.sampled_from([True] + [False] * (one_in_n - 1))):
        return None
    return [draw(st.integers(0, 23)) for _ in range(draw(st.integers(3, 12)))]

@st.composite
def sweep_cases(draw, tier):
    every = tier == "thorough" and draw(one_in(4))       # every byte offset (if the log turns out <= 2 KB)
    desc = draw(descriptors(small=every))
    return dict(draw(file_kinds()), desc=desc, fracs=[draw(st.integers(0, 99)) / 100 for _ in range(3)],
                mt=draw(st.sampled_from([0, 0, 1, 2, 3, 4, 5])), all=every, perm=draw(perms(3)))

@st.composite
def point_cases(draw, tier):
    desc = draw(descriptors())
    cuts = [draw(selectors())]
    if draw(one_in(4)):
        cuts.append(draw(selectors()))
    return dict(draw(file_kinds()), desc=desc, cuts=cuts, config={"maxtasksperchunk": draw(st.sampled_from([0, 0, 1, 2, 3, 4, 5]))}, perm=draw(perms(2)))

@st.composite
def multiproc_cases(draw, tier):
    desc = draw(descriptors(timing=False))
    cfg = draw(st.sampled_from([{"processes": 2}, {"processes": 2, "maxtasksperchunk": 1}, {"processes": 1, "maxchunksperchild": 1},
                                {"processes": 2, "maxchunksperchild": 2, "maxtasksperchunk": 2}]))
    return dict(draw(file_kinds()), desc=desc, cuts=[draw(selectors())], config=cfg, perm=draw(perms(2)))

@st.composite
def kill_cases(draw, tier):
    desc = draw(descriptors(timing=False))
    n = len(C.triple_indices(desc))
    return dict(draw(file_kinds()), desc=desc, kill_after=draw(st.integers(0, n)))

# ----------------------------------------------------------------------------------------------- fixed descriptors for 'bytes'
def _g(n, na, seed, **kw): return dict({"kind": "grid", "n": n, "na": na, "seed": seed}, **kw)
def _seq(rec, **kw): return dict({"kind": "seq", "record": rec, "learn": "on", "eval": "on", "seed": None}, **kw)

FIXED = [
    # 0: tiny cross product, two learners (learner copied per triple)
    {"envs": [_g(2, 2, 1)], "lrns": [{"kind": "random"}, {"kind": "hist", "k": 2, "info": False}], "vals": [_seq(["reward"])],
     "shape": "cross", "description": None, "seed": 1},
    # 1: two environments x one learner x two evaluators
    {"envs": [_g(2, 3, 4, ctx="sparse", act="str"), {"kind": "linear", "n": 2, "na": 2, "seed": 3, "ncf": 1, "naf": 1, "filters": [["shuffle", 2]]}],
     "lrns": [{"kind": "pmf", "lean": 0.8}], "vals": [_seq(["reward", "action"], seed=7), {"kind": "func"}],
     "shape": "cross", "description": "d", "seed": 2},
    # 2: tuple list with shared and unshared components, out of id order
    {"envs": [_g(1, 2, 5, ctx="str"), _g(2, 2, 6, ctx="none", extra=True)], "lrns": [{"kind": "ucb"}, {"kind": "epsilon", "eps": 0.1}],
     "vals": [_seq(["reward", "probability"]), {"kind": "rows", "every": 2}],
     "shape": "tuples", "tuples": [(1, 0, 1), (0, 0, 0), (1, 1, 0), (0, 1, 1)], "description": "café", "seed": 3},
    # 3: three environments, one learner (no copy), learning info recorded
    {"envs": [_g(1, 2, 7), _g(2, 2, 8, act="tuple"), _g(1, 3, 9, ctx="scalar")], "lrns": [{"kind": "hist", "k": 3, "info": True}],
     "vals": [_seq(["reward", "context"])], "shape": "cross", "description": None, "seed": 4},
    # 4: 2 x 2 x 2
    {"envs": [_g(1, 2, 10), {"kind": "neighbors", "n": 1, "na": 2, "seed": 2, "ncf": 1, "naf": 1, "filters": []}],
     "lrns": [{"kind": "random"}, {"kind": "pmf", "lean": 0.5}], "vals": [_seq(["reward"]), _seq(["action"], learn=None)],
     "shape": "cross", "description": None, "seed": 5},
    # 5: six triples as a tuple list, a learner used once and a learner used three times
    {"envs": [_g(1, 2, 11), _g(1, 2, 12, ctx="str")], "lrns": [{"kind": "random"}, {"kind": "hist", "k": 1, "info": False}, {"kind": "ucb"}],
     "vals": [_seq(["reward"])], "shape": "tuples", "tuples": [(0, 1, 0), (1, 1, 0), (0, 0, 0), (1, 2, 0), (0, 2, 0), (1, 0, 0)],
     "description": None, "seed": 1},
]
def _wide(width, rows=1, const=False): return {"kind": "wide", "width": width, "rows": rows, "const": const}

def inflate_desc(where, width):
    """an experiment whose .gz log holds one very compressible record of `width` constant characters (a few KB of gzip inflating
    to > 1 MiB) followed by further records: where = 'I' (an evaluation outcome in the middle of the log) or 'experiment' (description)"""
    if where == "I":
        return {"envs": [_g(1, 2, 1), _g(2, 2, 2, ctx="str")], "lrns": [{"kind": "random"}, {"kind": "ucb"}],
                "vals": [_seq(["reward"]), _wide(width, 1, True)], "shape": "tuples",
                "tuples": [(0, 0, 0), (0, 0, 1), (1, 0, 0), (1, 1, 0), (0, 1, 0)], "description": None, "seed": 1}
    return dict(FIXED[5], description="d" * width)

BIG = [
    # 0: I records of ~70 KB, ~150 KB (3 rows) and small ones, log ~ 290 KB; the big records are neither first nor last
    {"envs": [_g(1, 2, 1), _g(2, 2, 2, ctx="str")], "lrns": [{"kind": "random"}, {"kind": "ucb"}],
     "vals": [_seq(["reward"]), _wide(70000), _wide(50000, 3)], "shape": "tuples",
     "tuples": [(0, 0, 0), (0, 0, 1), (1, 0, 2), (1, 1, 0), (0, 1, 1), (1, 1, 1)], "description": None, "seed": 1},
    # 1: one record of ~200 KB in the middle, ~66 KB records around it
    {"envs": [_g(1, 2, 3), _g(1, 3, 4)], "lrns": [{"kind": "hist", "k": 2, "info": False}],
     "vals": [_wide(66000), _wide(40000, 5), _seq(["reward", "action"])], "shape": "cross", "description": "big", "seed": 2},
]

def enumerate_big(tier):
    parts = 2 if tier == "quick" else 4
    for i in ([0] if tier == "quick" else range(len(BIG))):
        for gz, name in ((False, None), (True, None)) + (((True, "runs.gz.d/log.txt"),) if tier == "thorough" else ()):
            for part in range(parts):
                yield {"big": i, "gz": gz, "name": name, "tier": tier, "part": part, "parts": parts}
    for where in ("I", "experiment"):
        for width in ((3000000,) if tier == "quick" else (1100000, 3000000, 9000000)):
            yield {"inflate": where, "width": width, "gz": True, "name": None, "tier": tier}

QUICK_FIXED = [0, 2]
_SIZES = {}

def log_size(fixed, gz):
    """length of the log of a fixed descriptor (dry run, cached; the gz length does not depend on the clock)"""
    key = (fixed, gz)
    if key not in _SIZES:
        with Env() as env:
            log, _ = baseline(env, FIXED[fixed], gz)
        _SIZES[key] = len(log)
    return _SIZES[key]

def enumerate_bytes(tier):
    for i in (QUICK_FIXED if tier == "quick" else range(len(FIXED))):
        for gz in (False, True):
            n = log_size(i, gz)
            for b in range(0, n // BLOCK + 1):
                yield {"fixed": i, "gz": gz, "block": b}

# ----------------------------------------------------------------------------------------------- chunk()ed environments x maxtasksperchunk
def _cg(group, shuffle, n=2, na=2, seed=1): return {"kind": "linear", "n": n, "na": na, "seed": seed, "ncf": 1, "naf": 1, "group": group, "shuffle": shuffle}

CHUNKED = [
    # 0: one chunk: 2 shuffles x 2 learners x 1 evaluator = 2 parameter + 4 evaluation tasks
    {"envs": [_cg(0, 1), _cg(0, 2)], "lrns": [{"kind": "random"}, {"kind": "ucb"}], "vals": [_seq(["reward"])],
     "shape": "cross", "description": None, "seed": 1},
    # 1: one chunk: 3 shuffles x 2 learners x 2 evaluators = 3 + 12 tasks
    {"envs": [_cg(0, 1), _cg(0, 2), _cg(0, 3)], "lrns": [{"kind": "hist", "k": 2, "info": False}, {"kind": "epsilon", "eps": 0.1}],
     "vals": [_seq(["reward"]), {"kind": "rows", "every": 2}], "shape": "cross", "description": None, "seed": 2},
    # 2: two chunks (2 + 2 shuffles of different bases) and an environment outside any chunk, 3 learners: 2 x (2 + 6) tasks + 1 + 3
    {"envs": [_cg(0, 1), _cg(1, 1, seed=5), _g(2, 2, 3), _cg(0, 2), _cg(1, 4, seed=5)], "lrns": [{"kind": "random"}, {"kind": "pmf", "lean": 0.8}, {"kind": "ucb"}],
     "vals": [_seq(["reward", "action"])], "shape": "cross", "description": "chunks", "seed": 3},
]

def enumerate_chunked(tier):
    """every number of pending tasks a chunk can have: cuts at k=0 and behind EVERY record (the in-process log finishes the tasks of a
    chunk one by one), re-run with each maxtasksperchunk"""
    for i in ((0, 1) if tier == "quick" else range(len(CHUNKED))):
        for mt in ((2, 3, 4, 5) if tier == "quick" else (1, 2, 3, 4, 5, 6, 7)):
            for gz in ((False,) if tier == "quick" and mt != 4 else (False, True)):
                for perm in ((None,) if tier == "quick" else (None, [5, 1, 7, 3, 11, 2])):
                    yield {"chunked": i, "gz": gz, "mt": mt, "perm": perm, "interior": tier != "quick"}

def run_chunked(case):
    desc, gz = CHUNKED[case["chunked"]], case["gz"]
    with Env() as env:
        log, records = baseline(env, desc, gz)
        log, records = permute_log(log, records, gz, case.get("perm"))
        ks = {0} | {e for _, e, _ in records}
        if case.get("interior"): ks |= {(s_ + e_) // 2 for s_, e_, _ in records}
        run_offsets(env, desc, gz, log, records, sorted(ks), {"maxtasksperchunk": case["mt"]})

def classes_chunked(case):
    return ["gz" if case["gz"] else "plain", "maxtasksperchunk=%d" % case["mt"], "chunked=%d" % case["chunked"]] + (["permuted"] if case.get("perm") else [])

# ----------------------------------------------------------------------------------------------- gz members ending on a read-block boundary
GZBLOCK = 4096           # the step in which coba's restore reads a .gz log while looking for the last complete member
_PADS = {}

def pad_string(n):
    """n characters that gzip cannot compress much (base64 of a sha256 chain): the experiment description used as padding"""
    import hashlib, base64
    out, h = [], b"c02-pad"
    while 44 * len(out) < n:
        h = hashlib.sha256(h).digest()
        out.append(base64.b64encode(h).decode())
    return "".join(out)[:n]

def gz_member_size(dirpath, line):
    """size of the gzip member the real DiskSink(batch=1) writes for one line (file name log.gz, as in the runs)"""
    from coba.pipes import DiskSink
    path = os.path.join(dirpath, "log.gz")
    if os.path.exists(path): os.remove(path)
    DiskSink(path, batch=1).write([line])
    with open(path, "rb") as f:
        data = f.read()
    d = zlib.decompressobj(wbits=31)
    d.decompress(data)
    return len(data) - len(d.unused_data)

def find_pads(fixed, wants):
    """{(record index, wanted end offset): padding length} for the .gz log of FIXED[fixed]: the description (it only occurs in the
    experiment record, i.e. record 1) is lengthened one incompressible character at a time until the member of the chosen record
    ends exactly at the wanted offset. gzip length is not linear in the padding, hence the search (bounded); None = not found."""
    import coba.json
    key = (fixed, tuple(wants))
    if key in _PADS: return _PADS[key]
    out = {}
    with Env() as env:
        log, records = baseline(env, dict(FIXED[fixed], description=""), True)
        exp = json.loads(records[1][2])
        d = os.path.join(env.dir, "measure"); os.makedirs(d)
        def size(p):
            exp[1]["description"] = pad_string(p)
            return gz_member_size(d, coba.json.dumps(exp, separators=(",", ":")))
        size0 = records[1][1] - records[1][0]
        ok = size(0) == size0
        cache = {}
        for idx, want in wants:
            out[(idx, want)] = None
            if not ok or idx < 1 or idx >= len(records) - 1: continue
            need = want - records[idx][1] + size0           # the size the experiment member must have
            if need < size0: continue
            p = max(0, int((need - size0) / 0.78) - 80)
            for _ in range(900):
                if p not in cache: cache[p] = size(p)
                if cache[p] == need:
                    out[(idx, want)] = p; break
                if cache[p] > need + 40: break
                p += 1
    _PADS[key] = out
    return out

def gzblock_targets(fixed, tier):
    """(record index, multiple k, delta) choices: experiment record, a parameter record, I records; delta != 0 are controls"""
    n = {2: 13, 5: 15}[fixed]            # number of records of the .gz log incl. the trailing empty member (checked in run_gzblock)
    idxs = [1, 3, n // 2, n - 3] if tier == "quick" else list(range(1, n - 1))
    ks = (1, 2) if tier == "quick" else (1, 2, 3)
    for idx in idxs:
        for k in ks:
            yield idx, k, 0
    for idx in (idxs[:2] if tier == "quick" else idxs):
        for delta in (-1, 1):
            yield idx, 1, delta

def enumerate_gzblock(tier):
    for fixed in ([5] if tier == "quick" else [5, 2]):
        targets = list(gzblock_targets(fixed, tier))
        pads = find_pads(fixed, [(idx, GZBLOCK * k + delta) for idx, k, delta in targets])
        for idx, k, delta in targets:
            yield {"fixed": fixed, "record": idx, "end": GZBLOCK * k + delta, "pad": pads[(idx, GZBLOCK * k + delta)]}

def run_gzblock(case):
    if case["pad"] is None:
        raise Inconclusive("no padding found within the bound")
    desc = dict(FIXED[case["fixed"]], description=pad_string(case["pad"]))
    with Env() as env:
        log, records = baseline(env, desc, True)
        if case["record"] >= len(records) - 1 or records[case["record"]][1] != case["end"]:
            raise Inconclusive("the cached padding no longer puts the member end on the wanted offset")
        s_, e_, _ = records[case["record"]]
        ks = sorted({k for k in offsets_quick(records, [0.5]) if k >= e_ - 1} | {s_ + 1, len(log)})
        run_offsets(env, desc, True, log, records, ks)

def classes_gzblock(case):
    if case["pad"] is None: return ["no-padding-found"]
    return ["member-end=%d*4096%+d" % (round(case["end"] / GZBLOCK), case["end"] - GZBLOCK * round(case["end"] / GZBLOCK)), "record=%d" % case["record"]]

# =============================================================================================== evidence helpers
def n_triples(desc):
    return len(C.triple_indices(desc))

def has_rowless(desc):
    return any(e["kind"] == "empty" or any(f[0] == "take_strict" for f in e.get("filters", ())) for e in desc["envs"]) or \
           any(v["kind"] == "seq" and not [r for r in v["record"] if r in ("context", "actions", "rewards", "time")]
               and (not v.get("eval") or not [r for r in v["record"] if r in ("reward", "action", "probability")]) for v in desc["vals"])

def desc_classes(desc):
    out = ["shape=" + desc["shape"], "triples=%d" % n_triples(desc)]
    out += sorted({"eval=" + v["kind"] for v in desc["vals"]})
    if has_rowless(desc): out.append("maybe-rowless-record")
    used = [l for _, l, _ in C.triple_indices(desc)]
    if any(used.count(l) > 1 for l in set(used)): out.append("learner-shared")
    if any("group" in e for e in desc["envs"]): out.append("chunked-environments")
    return out

def kind_class(case):
    if case.get("perm"): return kind_class(dict(case, perm=None)) + "+permuted"
    return ("gz-name:" + case["name"]) if case.get("name") else ("gz" if case["gz"] else "plain")

def classes_kill(case):
    n = n_triples(case["desc"])
    k = case["kill_after"]
    return [kind_class(case), "killed:" + ("before-first-triple" if k == 0 else "after-all" if k >= n else "between-triples")] + desc_classes(case["desc"])[:2]

def classes_big(case):
    if "inflate" in case: return ["gz", "inflating-record=%s" % case["inflate"], "inflated-MB=%.1f" % (case["width"] / 1e6)]
    return [kind_class(case), "big=%d" % case["big"]]

def classes_sweep(case):
    return [kind_class(case)] + desc_classes(case["desc"]) + (["all-bytes-if<=2KB"] if case.get("all") else [])

def classes_point(case):
    kind = "gz" if case["gz"] else "plain"
    out = [kind_class(case), "cuts=%d" % len(case["cuts"])]
    for c in case["cuts"]:
        rt = c["rtype"] if not (c["rtype"] == "gztail" and not case["gz"]) else "any"
        out.append(f"{kind}:{rt}:{c['pos']}")
    cfg = case.get("config") or {}
    if cfg.get("processes", 1) > 1 or cfg.get("maxchunksperchild", 0): out.append("multiprocess")
    return out + desc_classes(case["desc"])[:2]

def nontrivial_point(case):
    return any(c["pos"] in ("first", "last", "interior") or (c["rtype"] == "I" and c["pos"] == "boundary") for c in case["cuts"])

def classes_bytes(case):
    return ["gz" if case["gz"] else "plain", "fixed=%d" % case["fixed"]]

def classify(case, exc):
    """only a violation that resume_and_check itself attributed to one narrowly described pattern (Known) maps to a finding id;
    the runner honours the id only if it is listed as open, otherwise the violation is reported as usual"""
    if isinstance(exc, Known):
        return exc.fid
    return None

def view(case):
    return case

SUBCHECKS = [
    Sub(name="sweep", run=run_sweep, strategy=sweep_cases, nontrivial=lambda c: True, classes=classes_sweep, classify=classify,
        quick=45, thorough=1200, quick_shards=1, quick_budget_s=42, thorough_budget_s=150,
        what="generated experiment x {plain,gz}: k=0, every record boundary, first/last/interior byte of every record (thorough: every byte if log<=2KB); oracle (1)-(4) at every k"),
    Sub(name="point", run=run_point, strategy=point_cases, nontrivial=nontrivial_point, classes=classes_point, classify=classify,
        quick=1000, thorough=40000, quick_shards=2, quick_budget_s=42, thorough_budget_s=150,
        what="generated experiment x {plain,gz} x one crash point (record type, ordinal, position class), 25% followed by a second crash of the resumed log; in-process re-run with generated maxtasksperchunk"),
    Sub(name="bytes", run=run_bytes, enumerate=enumerate_bytes, nontrivial=lambda c: True, classes=classes_bytes, classify=classify, exhaustive=True,
        quick_shards=2, quick_budget_s=48, thorough_budget_s=150,
        what="fixed small experiments (quick: 2, thorough: 6; logs <= 2KB): EVERY byte offset 0..len of the plain and of the gz log, in blocks of 48"),
    Sub(name="multiproc", run=run_point, strategy=multiproc_cases, nontrivial=nontrivial_point, classes=classes_point, classify=classify,
        quick=8, thorough=200, quick_shards=1, quick_budget_s=42, thorough_budget_s=150,
        what="as 'point' but the re-run uses spawned worker processes (processes=2 / maxchunksperchild / maxtasksperchunk)"),
    Sub(name="kill", run=run_kill, strategy=kill_cases, nontrivial=lambda c: 0 < c["kill_after"], classes=classes_kill, classify=classify,
        quick=16, thorough=400, quick_shards=1, quick_budget_s=40, thorough_budget_s=150,
        what="REAL interruption: a child process running the experiment (plain / gz / '.gz' inside the path) dies by os._exit when evaluation n+1 starts; the file it left is resumed: the n finished triples must not be evaluated again, oracle (1)-(4)"),
    Sub(name="big", run=run_big, enumerate=enumerate_big, nontrivial=lambda c: True, classes=classes_big, classify=classify,
        quick_shards=1, thorough_shards=16, quick_budget_s=45, thorough_budget_s=150,
        what="fixed experiments with logs of 360 KB and records of 66-200 KB: cuts leaving a partial final record of 65534..65538 / 131071..131073 / 131072+777 bytes, and first/middle/last byte and end of every record lying beyond the first 64 KiB (plain); 4095..4097 / 8191..8193 / trailer bytes of big members (gz); plus .gz logs holding one record of 1.1-9 million constant characters (I record in the middle / experiment description; a few KB of gzip inflating > 1 MiB per 4 KiB block): resume from the complete log and from every cut behind that record"),
    Sub(name="chunked", run=run_chunked, enumerate=enumerate_chunked, nontrivial=lambda c: True, classes=classes_chunked, classify=classify,
        quick_shards=1, thorough_shards=8, quick_budget_s=45, thorough_budget_s=150,
        what="fixed experiments over chunk()ed environments (6 and 15 tasks in one chunk; thorough: also two chunks + an unchunked environment): cut at k=0 and behind EVERY record (every number of pending tasks per chunk), re-run with maxtasksperchunk 2,3,4,5 (thorough 1..7, plain and gz, permuted logs, record interiors)"),
    Sub(name="gzblock", run=run_gzblock, enumerate=enumerate_gzblock, nontrivial=lambda c: c["pad"] is not None and c["end"] % GZBLOCK == 0,
        classes=classes_gzblock, classify=classify, quick_shards=1, thorough_shards=4, quick_budget_s=45, thorough_budget_s=150,
        what=".gz logs padded (experiment description, searched one character at a time with the real DiskSink) until a chosen non-final member (experiment / parameter / I record) ends exactly at 4096*k, k=1,2 (controls +-1): resume from the complete log, from every record boundary and first/last/middle byte of every record behind that boundary"),
]
