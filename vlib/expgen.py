"""Experiments as data: descriptors, build(descriptor) -> fresh Experiment, Hypothesis strategies, isolated runners
(in-process / real spawned workers / simulated workers with an owned schedule) and Result comparison.

Shared by the experiment-level checks (C01, C03; meant to be reused by C02).

Descriptor (plain JSON-able data)
---------------------------------
    {"groups":     [GROUP, ...],          # each group is one base environment + a pipeline of ops; it may fan out
     "env_post":   {"<flat index>": [OP, ...]},   # optional: ops appended to ONE flat environment (fault injection)
     "learners":   [LEARNER, ...],
     "evaluators": [EVALUATOR, ...],      # may be [] -> the Experiment default SequentialCB()
     "shape":      "cross" | "tuples",
     "tuples":     [[ei, li, vi|None], ...],   # shape == "tuples": indices (taken modulo the list sizes) into the
                                               # FLAT environment list, the learners and the evaluators; vi None ->
                                               # a 2-tuple (env, learner) is passed (Experiment adds its default evaluator)
     "seed":       int | None,            # experiment seed handed to run(seed=...)
     "description": str | None}

GROUP     {"base": BASE, "ops": [OP, ...]}
BASE      {"kind":"linear","n":..,"n_actions":..,"n_ctx":..,"n_act":..,"seed":..}
          {"kind":"neighbors","n":..,"n_actions":..,"n_ctx":..,"n_act":..,"n_nb":..,"seed":..}
          {"kind":"bandit","n":..,"n_actions":..,"seed":..}
          {"kind":"lambda","n":..,"fn": key of comps_exp.LAMBDAS,"seed": int (only for the 'rng' family)}
          {"kind":"supervised","X":[..],"Y":[..],"label_type":"c"|"m","form":"source"|"xy"}
              form "source" = SupervisedSimulation(ListSource(list(zip(X,Y))), None, label_type)  (re-iterable)
              form "xy"     = Environments.from_supervised(X, Y, label_type=..)  (X, Y given as LISTS)
OP        ["chunk",{"cache":bool}] ["cache",{}] ["shuffle",{"n":k}|{"seeds":[..]}|{"seed":s}] ["take",{"n":k,"strict":bool}]
              (strict take on a shorter source leaves an environment WITHOUT interactions)
          ["noise",{"context":[m,s]|None,"action":..,"reward":..,"seed":s|[s..]}] ["binary",{}] ["params",{..}]
          ["logged",{"learners":[LEARNER..],"seed":float}] ["reservoir",{"n":k,"seeds":[..]}] ["batch",{"n":k}]
          ["drop",{"keys":["rewards"]}]   (user filter removing fields: plain logged data without a reward function)
          ["fault_read",{"at":j,"msg":m}] ["fault_params",{"msg":m}]
LEARNER   {"kind":"random","seed":s} {"kind":"epsilon","epsilon":e,"seed":s} {"kind":"ucb","seed":s}
          {"kind":"corral","base":[LEARNER..],"base_refs":[li..],"seed":s}     (default eta; base_refs = *the same objects*
                                                                                 as listed learners li, appended to base)
          {"kind":"history","tag":t,"fmt":"a|ap|pmf|ap_kw|pmf_kw","score":bool,"info":bool,"batch":bool,"finish":bool}
              (finish: the learner implements the optional finish() hook - it releases its model and refuses later use;
               "sized":bool - defines __len__ = number of updates, i.e. the object is FALSY while pristine;
               "uncopyable":bool - owns a threading.Lock: deepcopy / pickle raise TypeError)
              (batch: this instance takes batched calls natively - fmt ap/pmf only; otherwise it raises on a batch and
               SafeLearner falls back to row-by-row calls. Built-in bandit learners never take batches.)
          {"kind":"faulty","inner":LEARNER,"where":"params|predict|learn","at":j,"msg":m,"batches":bool}
              (batches: batched calls are passed to the batch-capable inner learner and counted; one-shot fault)
EVALUATOR {"kind":"seq","record":[..],"learn":..,"eval":..,"seed":..}
          {"kind":"rejection","record":[..],"seed":..,"cpct":..}
          {"kind":"fn","name":"rows"|"summary"}
          {"kind":"tag","tag":t,"stride":k,"seed":..,"fault_after":j|None,"msg":m|None,"ragged":bool,"tail":bool}
              (ragged: rows from the 2nd on carry an extra scalar field; tail: a final summary row, also for an empty environment)

build(desc) returns a `Built`: a *fresh* Experiment plus the fresh component objects and the index triples, so a
twin of any stateful object is one more build() away, and the same descriptor can be rebuilt in another process.
"""
import os, sys, pickle, shutil, tempfile, threading, itertools, collections, ctypes
from contextlib import contextmanager
from collections.abc import Iterator

from .util import use_repo, Violation, Inconclusive, require, same, isnan
use_repo()

import multiprocessing.queues, multiprocessing.synchronize

import coba.multiprocessing as coba_mp
from coba.environments import Environments, SupervisedSimulation
from coba.environments.filters import Noise
from coba.learners import RandomLearner, BanditEpsilonLearner, BanditUCBLearner, CorralLearner
from coba.evaluators import SequentialCB, RejectionCB
from coba.experiments import Experiment
from coba.context import CobaContext, NullLogger
from coba.context.core import ExperimentConfig
from coba.context.cachers import NullCacher
from coba.pipes import ListSink, ListSource
from coba.pipes.multiprocessing import Pickler, Unpickler, Multiprocessor as RealMultiprocessor
from coba.results import Result
from coba.results.core import Missing

from . import comps_exp as comps

# =============================================================================================== build
def build_learner(d, listed=None):
    """listed: already built learners of the experiment (for corral base_refs)."""
    k = d["kind"]
    if k == "random":  return RandomLearner(seed=d.get("seed", 1))
    if k == "epsilon": return BanditEpsilonLearner(d.get("epsilon", 0.05), seed=d.get("seed", 1))
    if k == "ucb":     return BanditUCBLearner(seed=d.get("seed", 1))
    if k == "history":
        cls = comps.UncopyableHistoryLearner if d.get("uncopyable") else comps.HISTORY_CLASSES[(bool(d.get("finish")), bool(d.get("sized")))]
        return cls(d["tag"], d.get("fmt", "ap"), d.get("score", False), d.get("info", False), d.get("batch", False))
    if k == "corral":
        base = [build_learner(b) for b in d.get("base", [])]
        for r in d.get("base_refs", []):
            base.append(listed[r % len(listed)])
        return CorralLearner(base, seed=d.get("seed", 1))
    if k == "faulty":  return comps.FaultyLearner(build_learner(d["inner"], listed), d["where"], d.get("at", 0), d["msg"], d.get("batches", False))
    raise ValueError(f"unknown learner kind {k!r}")

def build_learners(descs):
    out = [None] * len(descs)
    def is_ref_corral(d):
        return (d["kind"] == "corral" and d.get("base_refs")) or (d["kind"] == "faulty" and is_ref_corral(d["inner"]))
    for i, d in enumerate(descs):
        if not is_ref_corral(d): out[i] = build_learner(d)
    plain = [l for l in out if l is not None]
    for i, d in enumerate(descs):
        if out[i] is None: out[i] = build_learner(d, plain)
    return out

def build_evaluator(d):
    k = d["kind"]
    if k == "seq":       return SequentialCB(record=list(d.get("record", ["reward", "action", "probability"])), learn=d.get("learn", "on"), eval=d.get("eval", "on"), seed=d.get("seed"))
    if k == "rejection": return RejectionCB(record=list(d.get("record", ["reward"])), cpct=d.get("cpct", .005), seed=d.get("seed"))
    if k == "fn":        return {"rows": comps.eval_fn_rows, "summary": comps.eval_fn_summary}[d["name"]]
    if k == "tag":       return comps.TagEvaluator(d["tag"], d.get("stride", 1), d.get("seed"), d.get("fault_after"), d.get("msg"), d.get("ragged", False), d.get("tail", False))
    raise ValueError(f"unknown evaluator kind {k!r}")

def build_base(b):
    k = b["kind"]
    if k == "linear":
        return Environments.from_linear_synthetic(b["n"], n_actions=b["n_actions"], n_context_features=b["n_ctx"], n_action_features=b["n_act"], seed=b["seed"])
    if k == "neighbors":
        return Environments.from_neighbors_synthetic(b["n"], n_actions=b["n_actions"], n_context_features=b["n_ctx"], n_action_features=b["n_act"], n_neighborhoods=b.get("n_nb", 5), seed=b["seed"])
    if k == "bandit":
        return Environments.from_bandit_synthetic(b["n"], n_actions=b["n_actions"], seed=b["seed"])
    if k == "lambda":
        ctx, acts, rwd, needs_rng = comps.LAMBDAS[b["fn"]]
        return Environments.from_lambda(b["n"], ctx, acts, rwd, b.get("seed", 1)) if needs_rng else Environments.from_lambda(b["n"], ctx, acts, rwd)
    if k == "supervised":
        X, Y = list(b["X"]), list(b["Y"])
        if b.get("form", "source") == "xy":
            return Environments.from_supervised(X, Y, label_type=b.get("label_type", "c"))
        return Environments(SupervisedSimulation(ListSource(list(zip(X, Y))), None, b.get("label_type", "c")))
    raise ValueError(f"unknown base kind {k!r}")

def apply_op(envs, op):
    name, a = op[0], (op[1] if len(op) > 1 else {})
    if name == "chunk":   return envs.chunk(cache=a.get("cache", True))
    if name == "cache":   return envs.cache()
    if name == "shuffle":
        if "n" in a:      return envs.shuffle(n=a["n"])
        if "seeds" in a:  return envs.shuffle(list(a["seeds"]))
        return envs.shuffle(a.get("seed", 1))
    if name == "take":    return envs.take(a["n"], strict=a.get("strict", False))
    if name == "batch":   return envs.batch(a["n"])
    if name == "drop":    return envs.filter(comps.DropKeys(a["keys"]))
    if name == "reservoir": return envs.reservoir(a["n"], seeds=list(a.get("seeds", [1])))
    if name == "binary":  return envs.binary()
    if name == "params":  return envs.params(dict(a))
    if name == "noise":
        tup = lambda v: None if v is None else tuple(v)
        return envs.noise(context=tup(a.get("context")), action=tup(a.get("action")), reward=tup(a.get("reward")), seed=a.get("seed", 1))
    if name == "logged":  return envs.logged([build_learner(l) for l in a["learners"]], seed=a.get("seed", 1.23))
    if name == "fault_read":   return envs.filter(comps.FaultyRead(a["at"], a["msg"]))
    if name == "fault_params": return envs.filter(comps.FaultyParams(a["msg"]))
    raise ValueError(f"unknown op {name!r}")

def build_group(g):
    envs = build_base(g["base"])
    for op in g.get("ops", []):
        envs = apply_op(envs, op)
    return envs

class Built:
    """A freshly built experiment.

    experiment  the coba Experiment (never run)
    envs        flat list of environment objects (in group order, fan-out order inside a group)
    learners, evaluators   the listed objects (evaluators may be [] when the default evaluator is used)
    triples     the (env, learner, evaluator) object triples the Experiment will evaluate, in its order
    index_triples  per triple (ei, li, vi): indices into envs/learners/evaluators; vi is ("d", k) for an evaluator
                   the Experiment created itself (k-th implicit one)
    ids         per triple the (environment_id, learner_id, evaluator_id) that "ids by order of first appearance" gives
    """
    def __init__(self, desc, experiment, envs, learners, evaluators):
        self.desc, self.experiment, self.envs, self.learners, self.evaluators = desc, experiment, envs, learners, evaluators
        self.triples = list(experiment._triples)
        def index_of(objs):
            m = {}
            for i, o in enumerate(objs): m.setdefault(id(o), i)
            return m
        ei, li, vi = index_of(envs), index_of(learners), index_of(evaluators)
        implicit = {}
        self.index_triples = []
        for e, l, v in self.triples:
            if id(v) in vi: v_ix = vi[id(v)]
            else: v_ix = implicit.setdefault(id(v), ("d", len(implicit)))
            self.index_triples.append((ei[id(e)], li[id(l)], v_ix))
        seen = ({}, {}, {})
        self.ids = []
        for t in self.index_triples:
            self.ids.append(tuple(seen[j].setdefault(t[j], len(seen[j])) for j in range(3)))
        self.seed = desc.get("seed", 1)

    def learner_counts(self):
        return collections.Counter(li for _, li, _ in self.index_triples)

def n_flat_envs(desc):
    return len(flat_envs(desc))

def flat_envs(desc):
    flat = []
    for g in desc["groups"]:
        envs = build_group(g)
        for i in range(len(envs)):
            flat.append(envs[i:i + 1])          # an Environments holding one un-finalised pipeline (shared pipes stay shared)
    post = desc.get("env_post") or {}
    out = []
    for i, one in enumerate(flat):
        for op in post.get(str(i), []):
            one = apply_op(one, op)
        out.append(one[0])                       # finalised exactly as iterating an Environments would
    return out

def canon_eval_index(desc):
    """index -> first index building the *same object* (function evaluators are module-level functions)"""
    first, out = {}, []
    for i, v in enumerate(desc.get("evaluators", [])):
        key = ("fn", v["name"]) if v["kind"] == "fn" else ("obj", i)
        out.append(first.setdefault(key, i))
    return out

def build(desc) -> Built:
    """Build a fresh Experiment (and fresh component objects) from a descriptor. Nothing is read or run."""
    envs = flat_envs(desc)
    learners = build_learners(desc["learners"])
    evaluators = [build_evaluator(v) for v in desc.get("evaluators", [])]
    descr = desc.get("description")
    if desc.get("shape", "cross") == "cross":
        if evaluators:
            exp = Experiment(envs, learners, evaluators, descr) if descr is not None else Experiment(envs, learners, evaluators)
        else:
            exp = Experiment(envs, learners, description=descr) if descr is not None else Experiment(envs, learners)
    else:
        tuples, seen, canon = [], set(), canon_eval_index(desc)
        for t in desc["tuples"]:
            e, l = t[0] % len(envs), t[1] % len(learners)
            v = None if (len(t) < 3 or t[2] is None or not evaluators) else canon[t[2] % len(evaluators)]
            if (e, l, v) in seen: continue
            seen.add((e, l, v))
            tuples.append((envs[e], learners[l]) if v is None else (envs[e], learners[l], evaluators[v]))
        exp = Experiment(tuples, descr) if descr is not None else Experiment(tuples)
    return Built(desc, exp, envs, learners, evaluators)

def solo_desc(desc, index_triple):
    """Descriptor of the one-triple experiment for `index_triple` (as found in Built.index_triples) with the same component lists."""
    e, l, v = index_triple
    d = dict(desc)
    d["shape"] = "tuples"
    d["tuples"] = [[e, l, None if isinstance(v, tuple) else v]]
    if isinstance(v, tuple) and desc.get("shape", "cross") == "cross":
        d["tuples"] = [[e, l, None]]
    return d

def subset_desc(desc, index_triples):
    """Descriptor (tuple-list shape) evaluating exactly the given index triples in the given order."""
    d = dict(desc)
    d["shape"] = "tuples"
    d["tuples"] = [[e, l, None if isinstance(v, tuple) else v] for e, l, v in index_triples]
    return d

# =============================================================================================== isolation
_ATTRS = ("_logger", "_cacher", "_store", "_experiment", "_search_paths", "_learning_info", "_api_keys", "_config_backing")
_ABSENT = object()

@contextmanager
def isolated():
    """Temp working directory without a .coba file, recording logger, null cacher, empty store; everything restored on exit.

    Yields (tmpdir, log_items) - with quiet=True only exceptions reach log_items.
    """
    saved = {a: CobaContext.__dict__.get(a, _ABSENT) for a in _ATTRS}
    cwd = os.getcwd()
    tmp = tempfile.mkdtemp(prefix="verif-exp-")
    sink = ListSink()
    try:
        os.chdir(tmp)
        CobaContext.search_paths = [tmp]
        CobaContext.logger = NullLogger(sink)
        CobaContext.cacher = NullCacher()
        CobaContext.store = {}
        CobaContext._experiment = ExperimentConfig(1, 0, 0, "source")
        CobaContext._learning_info = {}
        yield tmp, sink.items
    finally:
        os.chdir(cwd)
        for a, v in saved.items():
            if v is _ABSENT:
                if a in CobaContext.__dict__: delattr(CobaContext, a)
            else:
                setattr(CobaContext, a, v)
        shutil.rmtree(tmp, ignore_errors=True)

# =============================================================================================== simulated workers
_BY_REF = (multiprocessing.queues.Queue, multiprocessing.synchronize.SemLock, ctypes.Array)

def _ref_dumps(obj, table):
    """pickle.dumps that keeps OS-level primitives (queues, locks, shared arrays) by reference - what process inheritance does."""
    import io
    f = io.BytesIO()
    p = pickle.Pickler(f, protocol=pickle.HIGHEST_PROTOCOL)
    def pid(o):
        if isinstance(o, _BY_REF):
            table[id(o)] = o
            return id(o)
        return None
    p.persistent_id = pid
    p.dump(obj)
    return f.getvalue()

def _ref_loads(blob, table):
    import io
    u = pickle.Unpickler(io.BytesIO(blob))
    u.persistent_load = lambda pid: table[pid]
    return u.load()

class _SimWorker:
    def __init__(self, number, filt):
        self.number = number
        self.filt = filt
        self.handled = 0
        self.ctx = {"_logger": NullLogger(), "_cacher": NullCacher(), "_store": {}, "_learning_info": {}}   # a fresh process
        self.gen = None

class SimMultiprocessor:
    """Stand-in for coba.pipes.Multiprocessor with an *owned* schedule, run inside the calling process.

    Faithful to the real one at the granularity that can influence a Result: every item is pickled in the caller
    (on the caller's objects), every worker owns an unpickled copy of the filter (as a spawned process does), takes
    the next pickled item from the shared queue when it is idle, retires after `maxtasksperchild` items and is
    replaced by a fresh worker, keeps its own process-global CobaContext (logger, cacher, store, learning_info),
    and every output travels back pickled. `schedule` (ints, cycled) decides which live worker makes the next step
    (a step = take the next item, or run until the worker's next output, or until it ends), hence both the item->worker assignment and the
    arrival order of outputs (taking an item and producing its next output are separate steps). With n_processes == 1 and maxtasksperchild == 0 it defers to the real in-process path.
    """
    def __init__(self, filter, n_processes=1, maxtasksperchild=0, read_wait=False, schedule=(), trace=None):
        self._filter, self._n, self._m = filter, n_processes, (maxtasksperchild or None)
        self._schedule = list(schedule)
        self.trace = trace if trace is not None else {}

    def _run(self, worker, queue):
        while True:
            if self._m and worker.handled >= self._m: return "retired"
            if not queue: return "poisoned"
            index, raw = queue.popleft()
            worker.handled += 1
            self.trace.setdefault("assign", []).append((index, worker.number))
            yield None                       # taking an item and producing from it are separate steps: a worker may sit on an
                                             # item while others overtake it, so outputs need not arrive in queue order
            item = next(iter(Unpickler().filter([raw])))
            out = worker.filt.filter(item)
            out = out if isinstance(out, Iterator) else [out]
            for o in out:
                yield pickle.dumps(o)

    def filter(self, items):
        if self._n == 1 and self._m is None:
            yield from RealMultiprocessor(self._filter, 1, 0).filter(items)
            return
        queue = collections.deque(enumerate(Pickler().filter(items)))
        table = {}
        blob = _ref_dumps(self._filter, table)
        counter = itertools.count()
        def spawn():
            w = _SimWorker(next(counter), _ref_loads(blob, table))
            w.gen = self._run(w, queue)
            return w
        live = [spawn() for _ in range(self._n)]
        errors, step = [], 0
        names = list(live[0].ctx)
        while live:
            pick = (self._schedule[step % len(self._schedule)] if self._schedule else 0) % len(live)
            step += 1
            w = live[pick]
            main = {a: CobaContext.__dict__.get(a, _ABSENT) for a in names}
            for a in names: setattr(CobaContext, a, w.ctx[a])
            raw, status = None, None
            try:
                raw = next(w.gen)
            except StopIteration as s:
                status = s.value
            except Exception as e:
                errors.append(e); status = "failed"
            finally:
                for a in names:
                    w.ctx[a] = CobaContext.__dict__.get(a)
                    if main[a] is _ABSENT: delattr(CobaContext, a)
                    else: setattr(CobaContext, a, main[a])
            if status is None and raw is None:
                continue
            if status is None:
                self.trace.setdefault("arrival", []).append(w.number)
                yield pickle.loads(raw)
            elif status == "retired" and not errors:
                live[pick] = spawn()
            else:
                live.pop(pick)
        if errors:
            raise errors[0]

@contextmanager
def simulated_workers(schedule, trace=None):
    """Substitute coba.multiprocessing.Multiprocessor (the module global CobaMultiprocessor reaches) by SimMultiprocessor."""
    orig = coba_mp.Multiprocessor
    def factory(filter, n_processes=1, maxtasksperchild=0, read_wait=False):
        return SimMultiprocessor(filter, n_processes, maxtasksperchild, read_wait, schedule=schedule, trace=trace)
    coba_mp.Multiprocessor = factory
    try:
        yield
    finally:
        coba_mp.Multiprocessor = orig

# =============================================================================================== running
class Outcome:
    def __init__(self, result, log, error, lines=None):
        self.result, self.log, self.error, self.lines = result, log, error, lines

REAL_TIMEOUT_S = 180

def run_built(built, mode="inproc", processes=1, maxchunksperchild=0, maxtasksperchunk=0, schedule=(), to_file=False, trace=None):
    """Run built.experiment once in an isolated CobaContext.

    mode 'inproc': processes=1, maxchunksperchild=0, the given maxtasksperchunk
    mode 'real'  : Experiment.run(processes=p, maxchunksperchild=c, maxtasksperchunk=t) with spawned worker processes
    mode 'sim'   : the same call, with Multiprocessor replaced by SimMultiprocessor(schedule)
    Returns Outcome(result, captured exception-log lines, exception raised by run() or None, transaction lines if to_file).
    """
    with isolated() as (tmp, log):
        path = os.path.join(tmp, "result.log") if to_file else None
        kw = dict(result_file=path, quiet=True, seed=built.seed)
        if mode == "inproc":
            kw.update(processes=1, maxchunksperchild=0, maxtasksperchunk=maxtasksperchunk)
        else:
            kw.update(processes=processes, maxchunksperchild=maxchunksperchild, maxtasksperchunk=maxtasksperchunk)
        box = {}
        def call():
            try:
                box["result"] = built.experiment.run(**kw)
            except BaseException as e:       # reported to the caller, who decides whether the property allows it
                box["error"] = e
        if mode == "sim":
            with simulated_workers(schedule, trace): call()
        elif mode == "real":
            t = threading.Thread(target=call, daemon=True)
            t.start(); t.join(REAL_TIMEOUT_S)
            if t.is_alive():
                raise Inconclusive(f"real-worker run still going after {REAL_TIMEOUT_S}s")
        else:
            call()
        lines = None
        if to_file and os.path.exists(path):
            with open(path) as f: lines = f.read().splitlines()
        return Outcome(box.get("result"), [str(x) for x in log], box.get("error"), lines)

# =============================================================================================== comparing Results
TIMING = ("predict_time", "learn_time")
KEYS = {"environments": ("environment_id",), "learners": ("learner_id",), "evaluators": ("evaluator_id",),
        "interactions": ("environment_id", "learner_id", "evaluator_id", "index")}

def cell_eq(a, b):
    if a is Missing or b is Missing: return a is b
    if a is None or b is None: return a is b
    return same(a, b)

def table_view(table, keys):
    rows = {}
    for r in table.to_dicts():
        r = {str(k): v for k, v in r.items() if k not in TIMING}
        key = tuple(r[k] for k in keys)
        require(key not in rows, "two rows with the same primary key in a Result table", key=key)
        rows[key] = r
    return {"columns": sorted(str(c) for c in table.columns if c not in TIMING), "rows": rows, "order": list(rows)}

def snapshot(result):
    """Comparable view: the four tables keyed by primary key (timing columns dropped), their row order, and .experiment."""
    snap = {name: table_view(getattr(result, name), keys) for name, keys in KEYS.items()}
    snap["experiment"] = dict(result.experiment)
    return snap

def diff_snapshots(a, b):
    """None when equal, else a short description of the first difference (NaN == NaN, Missing only equals Missing)."""
    if not same(a["experiment"], b["experiment"]):
        return f".experiment differs: {a['experiment']!r} vs {b['experiment']!r}"
    for name in KEYS:
        ta, tb = a[name], b[name]
        if ta["columns"] != tb["columns"]:
            return f"{name}: columns differ: {ta['columns']} vs {tb['columns']}"
        ka, kb = set(ta["rows"]), set(tb["rows"])
        if ka != kb:
            return f"{name}: row keys differ: only in first {sorted(ka - kb)[:5]}, only in second {sorted(kb - ka)[:5]} ({len(ka)} vs {len(kb)} rows)"
        if ta["order"] != tb["order"]:
            i = next(i for i, (x, y) in enumerate(zip(ta["order"], tb["order"])) if x != y)
            return f"{name}: same rows in another order: position {i} holds {ta['order'][i]} vs {tb['order'][i]}"
        for key in sorted(ka):
            ra, rb = ta["rows"][key], tb["rows"][key]
            for c in ta["columns"]:
                if not cell_eq(ra[c], rb[c]):
                    return f"{name}: row {key} column {c!r}: {ra[c]!r} vs {rb[c]!r}"
    return None

def present(row, drop):
    """The cells a row really has: Missing ones (columns other rows introduced) and the id columns in `drop` removed."""
    return {k: v for k, v in row.items() if v is not Missing and k not in drop}

def rows_eq(a, b):
    return a.keys() == b.keys() and all(cell_eq(a[k], b[k]) for k in a)

def triple_rows(snap, ids):
    """Interaction rows of one (env_id, lrn_id, val_id), ordered by index, ids stripped, absent cells removed."""
    out = []
    for key in sorted(k for k in snap["interactions"]["rows"] if k[:3] == tuple(ids)):
        out.append(present(snap["interactions"]["rows"][key], KEYS["interactions"][:3]))
    return out

# =============================================================================================== strategies
from hypothesis import strategies as st

RECORDS = ["reward", "action", "probability", "context", "actions", "rewards", "time"]

def _subset(draw, items, always=()):
    return [x for x in items if x in always or draw(st.booleans())]

def learner_desc(draw, tag, logged=False, allow_corral=True, p_history=0.5, kw_ok=True, batched=False):
    r = draw(st.integers(0, 99))
    seed = draw(st.integers(0, 6))
    if r < p_history * 100:
        if logged:
            fmt = draw(st.sampled_from(["ap", "pmf", "ap", "pmf", "a"]))
            return {"kind": "history", "tag": tag, "fmt": fmt, "score": True, "info": draw(st.sampled_from([False, False, True, "late", "late"])), "finish": draw(st.integers(0, 9)) < 4,
                    "sized": draw(st.integers(0, 9)) < 3}
        fmts = ["ap", "pmf", "a", "ap_kw", "pmf_kw"] if kw_ok else ["ap", "pmf", "a"]
        if batched: fmts = ["ap", "pmf", "ap", "pmf", "a", "ap_kw"] if kw_ok else ["ap", "pmf", "ap", "pmf", "a"]
        d = {"kind": "history", "tag": tag, "fmt": draw(st.sampled_from(fmts)), "score": draw(st.booleans()), "info": draw(st.sampled_from([False, False, True, "late", "late"]))}
        if batched: d["batch"] = draw(st.booleans())
        d["finish"] = draw(st.integers(0, 9)) < 4
        d["sized"] = draw(st.integers(0, 9)) < 3
        return d
    kinds = ["random", "epsilon", "ucb", "corral"] if (allow_corral and not logged) else ["random", "epsilon", "ucb"]
    if batched: kinds = ["random", "epsilon", "epsilon"]   # BanditUCB.learn swallows a whole batch without raising (first call), so no row-by-row fallback: not C01/C03's
    k = draw(st.sampled_from(kinds))
    if k == "random":  return {"kind": "random", "seed": seed}
    if k == "epsilon": return {"kind": "epsilon", "epsilon": draw(st.sampled_from([0.0, 0.1, 0.5, 1.0])), "seed": seed}
    if k == "ucb":     return {"kind": "ucb", "seed": seed}
    nb = draw(st.integers(1, 2))
    base = [learner_desc(draw, f"{tag}b{j}", allow_corral=False, p_history=0.3, kw_ok=False) for j in range(nb)]
    return {"kind": "corral", "base": base, "seed": seed}

def evaluator_desc(draw, tag, logged=False, kinds=None, plain=False):
    kinds = kinds or (["seq", "seq", "rejection", "rejection", "fn", "tag"] if logged else ["seq", "seq", "seq", "fn", "tag"])
    if plain: kinds = ["seq", "seq", "seq", "rejection", "fn", "tag"]
    k = draw(st.sampled_from(kinds))
    seed = draw(st.sampled_from([None, None, 0, 1, 7]))
    if k == "seq":
        if plain:
            # some environments lack 'rewards': only off-policy learning / ips evaluation is possible there; the record list
            # mostly names 'rewards'/'actions', which such an environment cannot supply (the column is simply absent for it)
            learn, ev = "off", "ips"
            rec = _subset(draw, RECORDS, always=tuple(draw(st.sampled_from([("rewards",), ("rewards", "actions"), ("actions",), ()]))))
            if not rec: rec = ["reward"]
            return {"kind": "seq", "record": rec, "learn": learn, "eval": ev, "seed": seed}
        if logged:
            learn = draw(st.sampled_from(["on", "off", "ips"]))
            ev = draw(st.sampled_from(["on", "ips"]))
        else:
            learn = draw(st.sampled_from(["on", "on", "on", None]))
            ev = draw(st.sampled_from(["on", "on", "on", None]))
        rec = _subset(draw, RECORDS)
        if learn is None: rec = [x for x in rec if x != "time"]      # known elsewhere: record time with learn=None raises
        if not rec: rec = ["reward"]
        return {"kind": "seq", "record": rec, "learn": learn, "eval": ev, "seed": seed}
    if k == "rejection":
        rec = _subset(draw, ["reward", "action", "probability", "context", "actions", "time"], always=("reward",))
        return {"kind": "rejection", "record": rec, "seed": seed, "cpct": draw(st.sampled_from([.005, 0.0, 0.5]))}
    if k == "fn":
        return {"kind": "fn", "name": draw(st.sampled_from(["rows", "summary"]))}
    return {"kind": "tag", "tag": tag, "stride": draw(st.integers(1, 4)), "seed": seed, "ragged": draw(st.booleans()), "tail": draw(st.booleans())}

MIN_BATCHED_N = 8     # batched environments: at least one full batch of 6-8 interactions (see group_desc)

def base_desc(draw, max_n, unit_only=False, min_n=1):
    n = draw(st.integers(min(min_n, max_n), max_n))
    seed = draw(st.integers(0, 9))
    kinds = ["bandit", "lambda", "lambda", "supervised"] if unit_only else ["linear", "neighbors", "bandit", "lambda", "lambda", "supervised"]
    k = draw(st.sampled_from(kinds))
    if k == "linear":
        return {"kind": "linear", "n": n, "n_actions": draw(st.integers(2, 4)), "n_ctx": draw(st.integers(1, 3)), "n_act": draw(st.integers(1, 3)), "seed": seed}
    if k == "neighbors":
        return {"kind": "neighbors", "n": n, "n_actions": draw(st.integers(2, 4)), "n_ctx": draw(st.integers(1, 3)), "n_act": draw(st.integers(1, 3)), "n_nb": draw(st.integers(2, 6)), "seed": seed}
    if k == "bandit":
        return {"kind": "bandit", "n": n, "n_actions": draw(st.integers(2, 5)), "seed": seed}
    if k == "lambda":
        fn = draw(st.sampled_from(sorted(comps.LAMBDAS)))
        d = {"kind": "lambda", "n": n, "fn": fn}
        if comps.LAMBDAS[fn][3]: d["seed"] = seed
        return d
    labels = draw(st.sampled_from([["a", "b"], ["a", "b", "c"], [0, 1, 2], ["u", "v", "w", "x"]]))
    nf = draw(st.integers(1, 3))
    n = max(n, 2)
    X = [[draw(st.integers(0, 3)) for _ in range(nf)] for _ in range(n)]
    Y = [draw(st.sampled_from(labels)) for _ in range(n)]
    if len(set(Y)) < 2: Y[0], Y[1] = labels[0], labels[1]      # >= 2 actions: a length-1 pmf over one action is ambiguous by design
    return {"kind": "supervised", "X": X, "Y": Y, "label_type": "c", "form": "source"}

def group_desc(draw, gi, max_n, logged=False, unit_only=False, max_fan=3, small=False, batch=False, drop=False):
    min_n = MIN_BATCHED_N if batch else 1
    base = base_desc(draw, max_n, unit_only, min_n)
    ops = []
    fan = 1
    if not unit_only and draw(st.integers(0, 5)) == 0:
        ops.append(["noise", {"context": [0, 1], "seed": draw(st.integers(0, 3))}])
    if draw(st.integers(0, 7)) == 0:
        ops.append(["binary", {}])
    prefix = draw(st.sampled_from(["none", "none", "chunk", "chunk", "chunk_nocache", "cache"]))
    if prefix == "chunk": ops.append(["chunk", {"cache": True}])
    if prefix == "chunk_nocache": ops.append(["chunk", {"cache": False}])
    if prefix == "cache": ops.append(["cache", {}])
    f = draw(st.sampled_from(["none", "shuffle_n", "shuffle_n", "seeds", "noise"]))
    if max_fan <= 1 and f != "none": f = "shuffle1"
    if f == "shuffle_n":
        k = draw(st.integers(1, max_fan)); fan *= k
        ops.append(["shuffle", {"n": k}])
    elif f == "seeds":
        seeds = draw(st.lists(st.integers(0, 9), min_size=1, max_size=max_fan, unique=True)); fan *= len(seeds)
        ops.append(["shuffle", {"seeds": seeds}])
    elif f == "shuffle1":
        ops.append(["shuffle", {"seed": draw(st.integers(0, 5))}])
    elif f == "noise" and not unit_only:
        seeds = draw(st.lists(st.integers(0, 9), min_size=1, max_size=min(2, max_fan), unique=True)); fan *= len(seeds)
        ops.append(["noise", {"context": [0, 0.5], "reward": draw(st.sampled_from([None, [0, 0.1]])), "seed": seeds}])
    if logged:
        pols = [learner_desc(draw, f"P{gi}_{j}", logged=True, allow_corral=False, p_history=0.3) for j in range(draw(st.integers(1, 2 if fan * 2 <= max_fan else 1)))]
        pols = [dict(p, fmt="ap") if p["kind"] == "history" and p["fmt"] == "a" else p for p in pols]
        fan *= len(pols)
        ops.append(["logged", {"learners": pols, "seed": draw(st.sampled_from([1.23, 1.23, 2.0, 0.5]))}])
        if drop: ops.append(["drop", {"keys": ["rewards"]}])
        if draw(st.booleans()) and prefix == "none":
            ops.append(["chunk", {"cache": draw(st.booleans())}])
    r = draw(st.integers(0, 9))
    if r < 2:
        # strict take: all or nothing - n beyond the source length leaves an environment without interactions
        ops.append(["take", {"n": draw(st.integers(min(min_n, max_n), max_n + 6)), "strict": True}])
    elif r < 6:
        ops.append(["take", {"n": draw(st.integers(min(min_n, max_n), max_n))}])
    if batch:
        # batch sizes above every action count and above 2: for a batch of 2 or of len(actions) rows SafeLearner cannot tell a
        # non-batch learner's (action, prob) / action-list answer from a batch answer (format ambiguity owned by C15)
        ops.append(["batch", {"n": draw(st.sampled_from([6, 7, 8]))}])
    ops.append(["params", {"gtag": f"g{gi}"}])
    return {"base": base, "ops": ops}, fan

def experiment_desc(draw, max_groups=3, max_n=30, max_triples=12, max_learners=4, max_evaluators=3, p_history=0.5,
                    logged_share=0.35, p_tuples=0.4, allow_corral=True, eval_kinds=None, p_corral_refs=0.0, min_triples=2, p_batched=0.3):
    """A generated experiment descriptor whose triples are all evaluable by construction (see module doc)."""
    logged = draw(st.integers(0, 99)) < logged_share * 100
    # batched experiments: some (not necessarily all) groups end in .batch(n); simulated environments only (RejectionCB and
    # Logged do not take batches), no Corral (not batch aware); History doubles then carry a per-instance batch flag
    batched = (not logged) and draw(st.integers(0, 99)) < p_batched * 100
    n_lrn = draw(st.integers(1, max_learners))
    learners = [learner_desc(draw, f"L{i}", logged=logged, allow_corral=allow_corral and not batched, p_history=p_history, batched=batched) for i in range(n_lrn)]
    if batched and n_lrn >= 2 and draw(st.booleans()):
        # two instances of ONE class that differ in batch support (and nothing else that matters to the calling convention)
        fmt = draw(st.sampled_from(["ap", "pmf"]))
        first = draw(st.booleans())
        learners[0] = {"kind": "history", "tag": "L0", "fmt": fmt, "score": False, "info": False, "batch": first}
        learners[1] = {"kind": "history", "tag": "L1", "fmt": fmt, "score": False, "info": False, "batch": not first}
    has_corral = any(l["kind"] == "corral" for l in learners)
    if has_corral and draw(st.integers(0, 99)) < p_corral_refs * 100:
        plain = [i for i, l in enumerate(learners) if l["kind"] != "corral"]
        if plain:
            for l in learners:
                if l["kind"] == "corral":
                    l["base_refs"] = [draw(st.integers(0, len(plain) - 1))]
    n_grp = draw(st.integers(1, max_groups))
    # plain logged data: some (not all, when there are >= 2 groups) logged environments lose their 'rewards' field, so ONE
    # evaluator object meets environments with different fields
    plain = logged and draw(st.integers(0, 99)) < 40
    if plain and max_groups >= 2: n_grp = max(n_grp, 2)
    groups, fans = [], []
    for gi in range(n_grp):
        g, fan = group_desc(draw, gi, max_n, logged=logged, unit_only=has_corral, max_fan=3,
                            batch=batched and (gi == 0 or draw(st.booleans())),
                            drop=plain and (gi == 0 or (gi < n_grp - 1 and draw(st.booleans()))))
        groups.append(g); fans.append(fan)
    n_env = sum(fans)
    n_val = draw(st.integers(1 if plain else 0, max_evaluators))
    evaluators, fns = [], set()
    for i in range(n_val):
        v = evaluator_desc(draw, f"V{i}", logged=logged, kinds=eval_kinds, plain=plain)
        if v["kind"] == "fn":
            if v["name"] in fns: continue          # the same function object twice would list the same triple twice in a cross product
            fns.add(v["name"])
        evaluators.append(v)
    n_val = len(evaluators)
    if any(op[0] == "take" and op[1].get("strict") for g in groups for op in g["ops"]) and draw(st.integers(0, 9)) < 7:
        # an evaluator that yields a summary row even for an environment without interactions
        v = draw(st.sampled_from([{"kind": "fn", "name": "summary"}, {"kind": "tag", "tag": f"V{n_val}", "stride": 2, "seed": None, "ragged": False, "tail": True}]))
        if not (v["kind"] == "fn" and v["name"] in fns):
            evaluators.append(v); n_val = len(evaluators)
    if logged:
        # kwargs-returning learners cannot be taught off-policy and RejectionCB needs score(): logged learners are built accordingly
        pass
    desc = {"groups": groups, "learners": learners, "evaluators": evaluators, "seed": draw(st.sampled_from([1, 1, 2, 5, 0, 13])),   # never None: a None experiment seed is time-seeded by design
            "description": draw(st.sampled_from([None, None, "generated"]))}
    tuples_shape = draw(st.integers(0, 99)) < p_tuples * 100
    if not tuples_shape and n_env * n_lrn * max(1, n_val) > max_triples:
        tuples_shape = True
    if tuples_shape:
        k = draw(st.integers(2, max_triples))
        vi = st.one_of(st.none(), st.integers(0, max(0, n_val - 1))) if n_val else st.none()
        if plain: vi = st.integers(0, n_val - 1)      # the default SequentialCB() needs 'rewards' 
        tuples = draw(st.lists(st.tuples(st.integers(0, n_env - 1), st.integers(0, n_lrn - 1), vi), min_size=max(1, k // 2), max_size=k))
        desc["shape"] = "tuples"
        desc["tuples"] = [list(t) for t in tuples]
    else:
        desc["shape"] = "cross"
    # at least `min_triples` triples by construction (a single triple cannot show any interference)
    for _ in range(4):
        if len(static_triples(desc)) >= min_triples: break
        if desc["shape"] == "cross" or (n_env == 1 and len(desc["learners"]) == 1 and n_val <= 1):
            desc["learners"].append(learner_desc(draw, f"L{len(desc['learners'])}", logged=logged, allow_corral=False, p_history=p_history, batched=batched))
        if desc["shape"] == "tuples":
            e, l, v = desc["tuples"][0]
            desc["tuples"] += [[e, l + 1, v], [e + 1, l, v]]
    return desc

@st.composite
def experiments(draw, **kw):
    return experiment_desc(draw, **kw)

# --------------------------------------------------------------------------------------------- descriptor statistics
def desc_classes(desc):
    """Labels used for the evidence class distribution (pure function of the descriptor)."""
    out = [f"shape={desc.get('shape', 'cross')}"]
    ops = [op[0] for g in desc["groups"] for op in g["ops"]]
    fan = any((op[0] == "shuffle" and (op[1].get("n", 0) > 1 or len(op[1].get("seeds", [])) > 1)) or
              (op[0] == "noise" and isinstance(op[1].get("seed"), list) and len(op[1]["seed"]) > 1) or
              (op[0] == "logged" and len(op[1]["learners"]) > 1) for g in desc["groups"] for op in g["ops"])
    if "chunk" in ops and fan: out.append("shared-chunk-prefix")
    elif "chunk" in ops: out.append("chunk")
    if "cache" in ops: out.append("cache-prefix")
    if "logged" in ops: out.append("logged-envs")
    nd = sum(any(op[0] == "drop" for op in g["ops"]) for g in desc["groups"])
    if nd: out.append("plain-logged(no rewards):" + ("all" if nd == len(desc["groups"]) else "some"))
    if nd and any(v["kind"] == "seq" and ("rewards" in v["record"]) for v in desc.get("evaluators", [])): out.append("record-names-missing-field")
    inner_ = [(l["inner"] if l["kind"] == "faulty" else l) for l in desc["learners"]]
    if any(l.get("sized") for l in inner_): out.append("lrn-falsy-while-pristine")
    if any(l.get("uncopyable") for l in inner_): out.append("lrn-uncopyable")
    if any(op[0] == "take" and op[1].get("strict") for g in desc["groups"] for op in g["ops"]):
        def maybe_empty(g):
            t = [op[1] for op in g["ops"] if op[0] == "take" and op[1].get("strict")]
            return bool(t) and t[0]["n"] > g["base"].get("n", len(g["base"].get("X", [])))
        out.append("strict-take:" + ("empty-env" if any(maybe_empty(g) for g in desc["groups"]) else "kept"))
        if any(maybe_empty(g) and any(op[0] == "chunk" for op in g["ops"]) for g in desc["groups"]): out.append("empty-env-behind-chunk")
    if any((l["inner"] if l["kind"] == "faulty" else l).get("info") == "late" for l in desc["learners"]): out.append("ragged-rows:learner-info")
    if any(v.get("ragged") or v.get("tail") for v in desc.get("evaluators", [])): out.append("ragged-rows:evaluator")
    if any(v.get("tail") or (v["kind"] == "fn" and v["name"] == "summary") for v in desc.get("evaluators", [])): out.append("val-rows-for-empty-env")
    if any((l["inner"] if l["kind"] == "faulty" else l).get("finish") for l in desc["learners"]): out.append("lrn-with-finish-hook")
    nb = sum(any(op[0] == "batch" for op in g["ops"]) for g in desc["groups"])
    if nb: out.append("batched-envs:" + ("all" if nb == len(desc["groups"]) else "some"))
    inner = [(l["inner"] if l["kind"] == "faulty" else l) for l in desc["learners"]]
    flags = {l.get("batch", False) and l.get("fmt") in ("ap", "pmf") for l in inner if l["kind"] == "history"}
    if nb and flags == {True, False}: out.append("history-batch-and-nobatch")
    if nb and any((l["inner"] if l["kind"] == "faulty" else l)["kind"] in ("random", "epsilon", "ucb") for l in desc["learners"]): out.append("builtin-on-batched")
    for l in desc["learners"]:
        d = l["inner"] if l["kind"] == "faulty" else l
        out.append("lrn=" + d["kind"] + (":" + d["fmt"] if d["kind"] == "history" else ""))
    for v in desc.get("evaluators", []):
        out.append("val=" + v["kind"])
    if not desc.get("evaluators"): out.append("val=default")
    return sorted(set(out))

# =============================================================================================== static views of a descriptor
def group_fan(g):
    """Number of flat environments a group produces (computed from the descriptor, nothing is built)."""
    fan = 1
    for op in g.get("ops", []):
        name, a = op[0], (op[1] if len(op) > 1 else {})
        if name == "shuffle":
            if "n" in a: fan *= a["n"]
            elif "seeds" in a: fan *= len(a["seeds"])
        elif name == "noise" and isinstance(a.get("seed"), list): fan *= len(a["seed"])
        elif name == "logged": fan *= len(a["learners"])
        elif name == "reservoir": fan *= len(a.get("seeds", [1]))
    return fan

def static_n_envs(desc):
    return sum(group_fan(g) for g in desc["groups"])

def static_triples(desc):
    """Index triples (ei, li, vi|None) the Experiment will evaluate, in order, computed from the descriptor alone.
    vi None = evaluator created by the Experiment (one shared default in cross shape, one per triple in a tuple list)."""
    ne, nl, nv = static_n_envs(desc), len(desc["learners"]), len(desc.get("evaluators", []))
    if desc.get("shape", "cross") == "cross":
        return [(e, l, v) for e in range(ne) for l in range(nl) for v in (range(nv) if nv else [None])]
    out, seen, canon = [], set(), canon_eval_index(desc)
    for t in desc["tuples"]:
        e, l = t[0] % ne, t[1] % nl
        v = None if (len(t) < 3 or t[2] is None or not nv) else canon[t[2] % nv]
        if (e, l, v) in seen: continue
        seen.add((e, l, v)); out.append((e, l, v))
    return out

def shared_learners(desc):
    """learner indices occurring in >= 2 triples"""
    c = collections.Counter(l for _, l, _ in static_triples(desc))
    return sorted(l for l, n in c.items() if n > 1)

def has_ref_corral(desc):
    def ref(d): return (d["kind"] == "corral" and bool(d.get("base_refs"))) or (d["kind"] == "faulty" and ref(d["inner"]))
    return any(ref(l) for l in desc["learners"])

# =============================================================================================== fault plans
import copy as _copy

FAULT_KINDS = ("lrn_predict", "lrn_learn", "lrn_params", "env_read", "env_params", "val_rows", "lrn_predict_b", "lrn_learn_b", "lrn_uncopyable")

def batch_capable(l):
    return l["kind"] == "history" and l.get("batch", False) and l.get("fmt") in ("ap", "pmf")

def apply_fault(desc, fault):
    """Return a descriptor in which one component raises comps_exp.InjectedFault(fault['msg']).

    fault = {"kind": one of FAULT_KINDS, "target": int (index, taken modulo), "at": j, "msg": text}
      lrn_predict / lrn_learn : the target learner raises at its j-th predict / learn call (per evaluated copy)
      lrn_predict_b / lrn_learn_b : same inside a batch-CAPABLE HistoryLearner (batched calls counted and passed on, j >= 1,
                                one-shot: an immediate retry would succeed); falls back to the plain kind otherwise
      lrn_uncopyable          : the target HistoryLearner owns a lock (deepcopy/pickle raise TypeError); other kinds -> lrn_predict
      lrn_params              : building the target learner's params raises
      env_read                : the target flat environment raises when its j-th interaction is requested
      env_params              : building the target flat environment's params raises
      val_rows                : the target evaluator is replaced by a TagEvaluator raising after yielding j rows
                                (falls back to lrn_predict when the experiment lists no evaluator)
    """
    d = _copy.deepcopy(desc)
    kind, msg, at = fault["kind"], fault["msg"], fault.get("at", 0)
    if kind == "val_rows" and not d.get("evaluators"):
        kind = "lrn_predict"
    if kind == "lrn_uncopyable":
        # the target learner cannot be deep-copied (nor pickled): a pristine copy cannot be made when it is listed >= 2 times
        i = fault["target"] % len(d["learners"])
        if d["learners"][i]["kind"] == "history":
            d["learners"][i] = dict(d["learners"][i], uncopyable=True, finish=False, sized=False)
            return d
        kind = "lrn_predict"
    if kind in ("lrn_predict_b", "lrn_learn_b"):
        # fault inside a batch-capable learner at its j-th call (j >= 1: the first batched call is SafeLearner's probe), one-shot
        i = fault["target"] % len(d["learners"])
        if batch_capable(d["learners"][i]):
            d["learners"][i] = {"kind": "faulty", "inner": d["learners"][i], "where": kind[4:-2], "at": max(1, at), "msg": msg, "batches": True}
            return d
        kind = kind[:-2]
    if kind.startswith("lrn_"):
        i = fault["target"] % len(d["learners"])
        d["learners"][i] = {"kind": "faulty", "inner": d["learners"][i], "where": kind[4:], "at": at, "msg": msg}
    elif kind in ("env_read", "env_params"):
        i = fault["target"] % static_n_envs(d)
        op = ["fault_read", {"at": at, "msg": msg}] if kind == "env_read" else ["fault_params", {"msg": msg}]
        d.setdefault("env_post", {}).setdefault(str(i), []).append(op)
    elif kind == "val_rows":
        i = fault["target"] % len(d["evaluators"])
        old = d["evaluators"][i]
        d["evaluators"][i] = {"kind": "tag", "tag": f"VF{i}", "stride": 1, "seed": old.get("seed"), "fault_after": at, "msg": msg}
    else:
        raise ValueError(kind)
    return d

# =============================================================================================== object state (pristine check)
def state_of(o, _seen=None):
    """Structural, process-independent view of an object's state (used to compare a user's learner with a never-used twin)."""
    import types
    from coba.random import CobaRandom
    seen = _seen if _seen is not None else set()
    if o is None or isinstance(o, (bool, int, float, str, bytes)): return o
    if id(o) in seen: return "<cycle>"
    seen = seen | {id(o)}
    if isinstance(o, (list, tuple)): return [state_of(x, seen) for x in o]
    if isinstance(o, dict): return sorted(([repr(k), state_of(v, seen)] for k, v in o.items()), key=lambda kv: kv[0])
    if isinstance(o, (set, frozenset)): return sorted(repr(x) for x in o)
    if isinstance(o, CobaRandom):
        f = o._randu.gi_frame
        return ["CobaRandom", o._seed, f.f_locals.get("s") if f is not None else "<finished>"]
    if isinstance(o, types.MethodType): return ["method", o.__func__.__qualname__]
    if isinstance(o, (types.FunctionType, types.BuiltinFunctionType, type)): return ["callable", getattr(o, "__qualname__", repr(o))]
    if isinstance(o, types.GeneratorType): return "<generator>"
    if type(o).__name__ in ("lock", "RLock") and type(o).__module__ == "_thread": return "<lock>"
    if hasattr(o, "__dict__"): return [type(o).__name__, state_of(vars(o), seen)]
    if hasattr(o, "__slots__"): return [type(o).__name__, [[s, state_of(getattr(o, s, None), seen)] for s in o.__slots__]]
    return repr(o)

# =============================================================================================== pristine-process reference
# Class-level / module-level state inside coba survives between the cases a shard process runs, so a reference computed in
# the harness process cannot expose an evaluation that depends on what the process evaluated earlier. A "zygote" process is
# spawned once per harness process; it imports everything and never evaluates anything. For every reference it forks a child
# (pristine interpreter state, millisecond cost) that builds the descriptor, runs it in-process and sends back the outcome.
import multiprocessing as _mp

def _zygote_main(conn):
    import os, pickle, traceback
    while True:
        try:
            desc = conn.recv()
        except EOFError:
            return
        if desc is None: return
        r, w = os.pipe()
        pid = os.fork()
        if pid == 0:
            code = 0
            try:
                os.close(r)
                del comps.FIRED[:]
                try:
                    o = run_built(build(desc))
                    out = {"snapshot": None if o.result is None else snapshot(o.result), "log": o.log,
                           "error": None if o.error is None else f"{type(o.error).__name__}: {o.error}", "fired": list(comps.FIRED)}
                except BaseException as e:
                    out = {"snapshot": None, "log": [], "error": "harness: " + "".join(traceback.format_exception(type(e), e, e.__traceback__))[-1500:], "fired": []}
                with os.fdopen(w, "wb") as f: pickle.dump(out, f)
            except BaseException:
                code = 1
            finally:
                os._exit(code)
        os.close(w)
        with os.fdopen(r, "rb") as f: blob = f.read()
        os.waitpid(pid, 0)
        conn.send_bytes(blob)

class _Zygote:
    proc = None
    conn = None

def _zygote():
    if _Zygote.proc is None or not _Zygote.proc.is_alive():
        ctx = _mp.get_context("spawn")
        parent, child = ctx.Pipe()
        p = ctx.Process(target=_zygote_main, args=(child,), daemon=True)
        p.start(); child.close()
        _Zygote.proc, _Zygote.conn = p, parent
    return _Zygote.conn

FRESH_TIMEOUT_S = 120

def run_fresh(desc):
    """In-process run of build(desc) inside a *pristine* forked process. Returns a dict: snapshot, log, error (text), fired."""
    conn = _zygote()
    conn.send(desc)
    if not conn.poll(FRESH_TIMEOUT_S):
        _Zygote.proc.kill(); _Zygote.proc = None
        raise Inconclusive(f"pristine-process reference still running after {FRESH_TIMEOUT_S}s")
    blob = conn.recv_bytes()
    if not blob:
        raise Inconclusive("pristine-process reference died without an answer")
    out = pickle.loads(blob)
    if out["error"] and out["error"].startswith("harness: "):
        raise RuntimeError("pristine-process reference failed inside the harness: " + out["error"])
    return out

def unexpected_failures(log):
    """log lines that report an evaluation failure (everything except the IPS correlation warnings of SequentialCB)"""
    return [l for l in log if "WARNING: the learner's predicted actions are highly correlated" not in l]
