#!/usr/bin/env python3
"""Print the markdown table of seeded changes (seeded/<ID>/<n>/meta.json + seeded/NOTES.json) for DESIGN.md section 10."""
import json, glob, os, re
H = os.path.dirname(os.path.dirname(os.path.abspath(__file__)))
notes = json.load(open(f"{H}/seeded/NOTES.json"))
rows = []
for p in sorted(glob.glob(f"{H}/seeded/*/*/meta.json"), key=lambda p: (p.split('/')[-3], int(p.split('/')[-2]))):
    pid, n = p.split('/')[-3], p.split('/')[-2]
    m = json.load(open(p)); v = m["verified"]
    subs = sorted({re.match(r"\[(C\d+\.\w+)\]", l).group(1) for l in v.get("check_output", []) if re.match(r"\[(C\d+\.\w+)\]", l)})
    caught = "caught: " + ", ".join(subs) if v.get("check_rc") == 1 else ("harness error" if v.get("check_rc") == 2 else "MISSED")
    extra = v.get("also_caught_by")
    if extra: caught += f"; also {extra}"
    rows.append(f"| {pid}/{n} | {(m.get('summary') or '')[:230].replace('|','/')} | {(m.get('needs') or '')[:200].replace('|','/')} | {caught} | {notes.get(f'{pid}/{n}','caught by the first version of the check')} |")
print("| seed | change | needs | quick tier of its property | history |\n|---|---|---|---|---|")
print("\n".join(rows))
