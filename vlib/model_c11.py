"""Reference model for C11 (Scale / Impute), written from the property statement, the docstrings and the unit tests.

Pure Python, no coba import. Data is an *abstract table*: a list of rows, each a list of cells, one cell per feature.
A cell is a number (int/float, never bool), a string (a non-numeric feature value), None (missing), the token NAN
(float('nan'): missing for Scale) or the token ABS (sparse encodings only: the key is absent from that row, which the
docs define as the value 0).

Statistics are computed with exact rational arithmetic (fractions.Fraction; every float is a rational) except for the
square root of the variance. Results are compared with a relative tolerance of 1e-9 (see `close`).
"""
import math
from fractions import Fraction

NAN = "~nan"
ABS = "~abs"
TOL = 1e-9
DEGENERATE = Fraction(1, 1000000)   # documented rule: a scale denominator below 1e-6 means "do not scale" (factor 1)

def is_num(c):
    return isinstance(c, (int, float)) and not isinstance(c, bool)

def is_str(c):
    return isinstance(c, str) and c not in (NAN, ABS)

def window_len(n, using):
    return n if using is None else min(using, n)

def median_exact(vals):
    s = sorted(vals)
    n = len(s)
    return s[n // 2] if n % 2 else (s[n // 2 - 1] + s[n // 2]) / 2

def percentile_exact(sorted_vals, p):
    """linear interpolation between closest ranks (position p*(n-1)) - the textbook/numpy default"""
    n = len(sorted_vals)
    if n == 1: return sorted_vals[0]
    pos = p * (n - 1)
    lo = pos.numerator // pos.denominator
    w = pos - lo
    if w == 0: return sorted_vals[lo]
    return (1 - w) * sorted_vals[lo] + w * sorted_vals[lo + 1]

# ------------------------------------------------------------------------------------------------ Scale
def scale_stats(vals, shift, scale):
    """vals: non-missing window values as Fractions.
    Returns a list of acceptable (shift, factor) pairs, `"unchanged"` entries, or None when nothing is asserted.
    shift is a Fraction, factor a Fraction or float."""
    named_shift = isinstance(shift, str)
    named_scale = isinstance(scale, str)
    if not vals and (named_shift or named_scale):
        # the statistic is undefined: the property fixes nothing but the shape; leaving the feature alone or applying
        # only a given numeric shift are both compatible with it
        alts = ["unchanged"]
        if not named_shift: alts.append((Fraction(shift), 1))
        return alts
    if named_shift:
        if shift == "min": s = -min(vals)
        elif shift == "mean": s = -sum(vals) / len(vals)
        elif shift in ("med", "median"): s = -median_exact(vals)
        else: raise ValueError(shift)
    else:
        s = Fraction(shift)
    if not named_scale:
        return [(s, Fraction(scale))]
    if scale == "minmax":
        den = max(vals) - min(vals)
    elif scale == "std":
        if len(vals) < 2:
            # sample standard deviation of one value is 0/0: undefined
            return ["unchanged", (s, 1)]
        m = sum(vals) / len(vals)
        var = sum((v - m) ** 2 for v in vals) / (len(vals) - 1)
        den = var
        if var > 0:
            # compare the threshold exactly on the variance, take the root in floating point
            if DEGENERATE ** 2 / 4 < var < DEGENERATE ** 2 * 4: return None
            if var < DEGENERATE ** 2: return [(s, 1)]
            num, d = var.numerator, var.denominator
            root = math.sqrt(num / d) if num < 2 ** 1000 and d < 2 ** 1000 else math.sqrt(float(var))
            return [(s, 1.0 / root)]
    elif scale == "iqr":
        if len(vals) <= 1:
            den = Fraction(0)
        else:
            sv = sorted(vals)
            den = percentile_exact(sv, Fraction(3, 4)) - percentile_exact(sv, Fraction(1, 4))
    elif scale == "maxabs":
        den = max(abs(v + s) for v in vals)
    else:
        raise ValueError(scale)
    if DEGENERATE / 2 < den < DEGENERATE * 2:
        return None  # too close to the documented threshold for a float implementation to be pinned down
    if den < DEGENERATE:
        return [(s, 1)]
    return [(s, 1 / den)]

def scale_reference(rows, shift, scale, using):
    """Per feature: None (nothing asserted) or a list of alternatives; an alternative is a list (one entry per row) of
    expected cells: ("same", original) or ("num", expected_float, magnitude)."""
    n = len(rows)
    m = len(rows[0]) if rows else 0
    w = window_len(n, using)
    out = []
    for j in range(m):
        col = [r[j] for r in rows]
        same = [("same", c) for c in col]
        win = col[:w]
        if any(is_str(c) for c in win) or (any(is_str(c) for c in col) and not any(is_num(c) or c == ABS for c in col)):
            out.append([same]); continue         # not a numeric feature
        if any(is_str(c) for c in col):
            out.append(None); continue           # type changes after the window: outside the stated domain
        vals = [Fraction(0) if c == ABS else Fraction(c) for c in win if c is not None and c != NAN]
        stats = scale_stats(vals, shift, scale)
        if stats is None:
            out.append(None); continue
        alts = []
        for st in stats:
            if st == "unchanged":
                alts.append(same); continue
            s, f = st
            exp = []
            for c in col:
                if not is_num(c):
                    exp.append(("same", c))      # None stays None, NaN stays NaN, an absent key stays absent
                else:
                    x = Fraction(c)
                    e = float(x + s) * float(f)
                    mag = max(abs(e), (abs(float(x)) + abs(float(s))) * abs(float(f)))
                    exp.append(("num", e, mag))
            alts.append(exp)
        out.append(alts)
    return out

def close(got, exp, mag):
    if not is_num(got) or (isinstance(got, float) and math.isnan(got)): return False
    return abs(got - exp) <= TOL * mag

# ------------------------------------------------------------------------------------------------ Impute
def impute_reference(rows, stat, indicator, using):
    """Per feature a dict:
         imputable : bool
         repl      : None | ("num", float, magnitude) | ("oneof", [values])      replacement for None cells
         ind       : "req" | "no" | "either"                                     0/1 missingness feature expected?
    Missing = None. ABS (sparse) counts as the value 0 in the statistics and is not missing."""
    n = len(rows)
    m = len(rows[0]) if rows else 0
    w = window_len(n, using)
    out = []
    for j in range(m):
        col = [r[j] for r in rows]
        win = col[:w]
        vals = [0 if c == ABS else c for c in win if c is not None]
        has_none = any(c is None for c in win)
        repl = None
        if vals:
            if stat in ("mean", "median"):
                if all(is_num(v) for v in vals):
                    fr = [Fraction(v) for v in vals]
                    e = sum(fr) / len(fr) if stat == "mean" else median_exact(fr)
                    repl = ("num", float(e), max(max(abs(float(v)) for v in fr), abs(float(e))))
            elif stat == "mode":
                counts = []
                for v in vals:
                    for k in counts:
                        if type(k[0]) is type(v) and k[0] == v or (is_num(k[0]) and is_num(v) and k[0] == v):
                            k[1] += 1; break
                    else:
                        counts.append([v, 1])
                top = max(c for _, c in counts)
                # ties: the statement does not say which of several modes is used
                repl = ("oneof", [v for v, c in counts if c == top])
            else:
                raise ValueError(stat)
        imputable = repl is not None
        if not indicator: ind = "no"
        elif imputable: ind = "req" if has_none else "no"
        else: ind = "either" if has_none else "no"   # a feature without a usable statistic: implementations differ, nothing stated
        out.append({"imputable": imputable, "repl": repl, "ind": ind})
    return out

def repl_matches(got, repl):
    if repl[0] == "num":
        if not is_num(got) or (isinstance(got, float) and math.isnan(got)): return False
        return abs(got - repl[1]) <= TOL * repl[2] if repl[2] else got == 0
    return any((is_num(got) and is_num(v) and got == v) or (type(got) is type(v) and got == v) for v in repl[1])
