"""Picklable components for the real-process part of C19 (imported inside spawned workers)."""
import os, time as _time

class FastTime:
    """Stands in for the `time` module inside coba.context.cachers in worker processes: only shortens the 1 s retry pause."""
    def sleep(self, secs):
        _time.sleep(0.004)
    def time(self):
        return _time.time()

class CacheUser:
    def __init__(self, logpath, delay, n_lines=5, rendezvous=0):
        self.logpath, self.delay, self.n_lines, self.rendezvous = logpath, delay, n_lines, rendezvous
        self._met = False

    def _meet(self):
        """First call in a worker: wait (bounded) until `rendezvous` workers are up, so that they really run concurrently."""
        self._met = True
        path = self.logpath + ".started"
        fd = os.open(path, os.O_WRONLY | os.O_APPEND | os.O_CREAT)
        try: os.write(fd, f"{os.getpid()}\n".encode())
        finally: os.close(fd)
        end = _time.time() + 15
        while _time.time() < end:
            with open(path) as f:
                if len(f.read().split()) >= self.rendezvous: return
            _time.sleep(0.002)

    def filter(self, item):
        from coba.context import CobaContext
        import coba.context.cachers as cm
        cm.time = FastTime()
        if self.rendezvous and not self._met: self._meet()
        key = item[0]
        def getter():
            fd = os.open(self.logpath, os.O_WRONLY | os.O_APPEND | os.O_CREAT)
            try:
                os.write(fd, f"{key} {os.getpid()}\n".encode())
            finally:
                os.close(fd)
            for i in range(self.n_lines):
                _time.sleep(self.delay)
                yield f"{key}-line{i}"
        with CobaContext.cacher.get_set(key, getter) as f:
            lines = [l.rstrip("\n") for l in f]
        yield (tuple(item), lines, os.getpid())
