"""Child interpreter for C08 (via='exit'): python -m vlib.child_c08 <n> <m> <items> <abandon>
Filters <items> items on <n> worker processes, takes <abandon> outputs, closes the output and returns from main():
the interpreter must then end by itself."""
import sys

def main():
    n, m, items, abandon = map(int, sys.argv[1:5])
    from coba.pipes.multiprocessing import Multiprocessor
    from vlib.sim_c08 import TagFilter
    it = iter(Multiprocessor(TagFilter(), n, m).filter(range(items)))
    got = [next(it) for _ in range(abandon)]
    it.close()
    print("CLOSED-OK", len(got), flush=True)

if __name__ == "__main__":
    main()
