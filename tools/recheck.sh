#!/bin/bash
# tools/recheck.sh <ID> <n> [ALSO-ID] : after a check was strengthened, re-run ./check <ID> --tier quick against the stored
# seeded change <ID>/<n> (no coba test run: that part of meta.json stays as verified at import) and refresh check_rc /
# check_output in its meta.json. With ALSO-ID the change is run against that neighbouring property's check instead.
cd "$(dirname "$0")/.."; ID="$1"; N="$2"; ALSO="${3:-}"
OUT="$(SKIP_TESTS=1 tools/seedcheck.sh "seeded/$ID/$N" "${ALSO:-$ID}" --jobs "${J:-6}" 2>&1)"; echo "$OUT" | cut -c1-300
/venv/bin/python - "seeded/$ID/$N/meta.json" "$OUT" "$ALSO" <<'PY'
import json,sys,re
p,out,also=sys.argv[1:4]; m=json.load(open(p)); v=m["verified"]
rc=re.search(r"check rc=(\d+)",out); viol=[l for l in out.splitlines() if l.startswith("[")][:2]
if also:
    if rc and rc.group(1)=="1": v["also_caught_by"]=also+" ("+"; ".join(l[:160] for l in viol)[:400]+")"
    else: v["also_run_against"]=also+": not caught"
else:
    v["check_rc"]=int(rc.group(1)) if rc else None; v["check_output"]=viol
    v["rechecked"]="check_rc/check_output refreshed by tools/recheck.sh after the check was strengthened"
json.dump(m,open(p,"w"),indent=1)
PY
