"""Module-level, picklable test components for the experiment-level checks (C01, C03; reusable by C02).

Everything here must be importable by name in a *spawned* worker process (./check exports PYTHONPATH so
that `import vlib.comps_exp` works in children), therefore: no lambdas, no closures, no local classes.

Contents
* h32                      - process-independent digest (crc32 of repr) used by the doubles
* HistoryLearner           - stateful learner: every prediction and every recorded field depends on its *full*
                             learn history; answers in one of the documented prediction formats
                             ('a' action only, 'ap' (action,prob), 'pmf', 'ap_kw' / 'pmf_kw' with kwargs)
* FinishingHistoryLearner  - the same with an observable finish() hook (releases its model, refuses later use)
* FaultyLearner            - wrapper: raises at params / at the j-th predict / at the j-th learn
* FaultyRead, FaultyParams - environment filters: raise at the j-th interaction of read / when params is built
* eval_fn_rows, eval_fn_summary - custom *function* evaluators
* TagEvaluator             - custom *class* evaluator (optionally raising after yielding j rows)
* lam_* functions          - module-level functions for LambdaSimulation
"""
import zlib

from coba.primitives import Learner, Evaluator, EnvironmentFilter, is_batch
from coba.context import CobaContext
from coba.safety import SafeLearner

def h32(*parts) -> int:
    """Digest that is identical in every process (no hash(), no id())."""
    return zlib.crc32(repr(parts).encode("utf-8"))

FIRED = []   # messages of the InjectedFault instances created in THIS process (side channel independent of coba's log)

class InjectedFault(RuntimeError):
    """The exception raised by the fault-injecting components (message carries a unique marker)."""
    def __init__(self, msg=""):
        super().__init__(msg)
        FIRED.append(msg)

# --------------------------------------------------------------------------------------------- learners
class HistoryLearner(Learner):
    """A deterministic learner whose state is a digest of everything it was ever taught.

    fmt: 'a' -> {'action': action}, 'ap' -> (action, prob), 'pmf' -> pmf, 'ap_kw' -> (action, prob, {'k':..}),
         'pmf_kw' -> (pmf, {'k':..}).  The kwargs value must come back unchanged in learn().
    score: implement `score` (needed by RejectionCB / ips evaluation without predict).
    batch: this INSTANCE understands batched calls (fmt 'ap'/'pmf' only): it answers a whole batch row-major from the state
           before the batch and makes ONE update per batch. Without the flag a batched call raises, so coba's SafeLearner
           falls back to calling it row by row - same class, different calling convention per instance.
    info: True -> write a value depending on the history into CobaContext.learning_info on every learn();
          "late" -> only from the 2nd learn() on (ragged rows: the column is absent from the evaluation's first row).
    """
    def __init__(self, tag, fmt="ap", score=False, info=False, batch=False):
        self.tag = tag
        self.fmt = fmt
        self.has_score = score
        self.info = info
        self.batch = bool(batch) and fmt in ("ap", "pmf")     # per-instance flag: ONE class, batch-capable or not
        self.h = h32("init", tag)
        self.n_pred = 0
        self.n_learn = 0
        self.mem = {"trace": [], "issued": []}      # nested mutable state: a shallow copy of the learner would share it

    @property
    def params(self):
        return {"family": "History", "tag": self.tag, "fmt": self.fmt, "batch": self.batch}

    def _pmf(self, context, actions, salt=None):
        tr = self.mem["trace"]
        w = [1 + h32(self.h, len(tr), tr[-1] if tr else 0, "w", context, i, salt) % 7 for i in range(len(actions))]
        t = float(sum(w))
        return [x / t for x in w]

    def _no_batches(self):
        # a learner without batch support fails *visibly* on a batch (coba then falls back to calling it row by row)
        raise TypeError(f"HistoryLearner {self.tag} was configured without batch support")

    def _predict_batch(self, context, actions):
        """row-major answer for a whole batch, all rows answered from the state before the batch"""
        self.n_pred += 1
        ctxs = list(context) if is_batch(context) else [context] * len(actions)
        out = []
        for j, (c, A) in enumerate(zip(ctxs, actions)):
            pmf = self._pmf(c, A, salt=j)
            if self.fmt == "pmf": out.append(pmf)
            else:
                i = h32(self.h, len(self.mem["trace"]), "pick", c, j) % len(A)
                out.append((A[i], pmf[i]))
        return out

    def score(self, context, actions, action):
        if not self.has_score:
            raise NotImplementedError("The `score` interface has not been implemented for this learner.")
        return self._pmf(context, actions)[list(actions).index(action)]

    def predict(self, context, actions):
        if is_batch(actions) or is_batch(context):
            if not self.batch: self._no_batches()
            return self._predict_batch(context, actions)
        self.n_pred += 1
        pmf = self._pmf(context, actions)
        kw = {"k": self.h % 100003}
        if self.fmt.endswith("_kw"): self.mem["issued"].append(kw["k"])
        if self.fmt == "pmf": return pmf
        if self.fmt == "pmf_kw": return pmf, kw
        i = h32(self.h, len(self.mem["trace"]), "pick", context) % len(actions)
        if self.fmt == "a": return {"action": actions[i]}     # explicit hint: a bare 1-feature action is ambiguous by design
        if self.fmt == "ap": return actions[i], pmf[i]
        if self.fmt == "ap_kw": return actions[i], pmf[i], kw
        raise ValueError(self.fmt)

    def learn(self, context, action, reward, probability, **kwargs):
        if is_batch(context) or is_batch(action) or is_batch(reward):
            if not self.batch: self._no_batches()
            # ONE update per batch: differs from what the same rows taught one at a time would leave behind
            self.n_learn += 1
            lst = lambda v: list(v) if is_batch(v) else v
            self.mem["trace"].append(h32(self.mem["trace"][-1] if self.mem["trace"] else 0, lst(action), lst(reward)))
            self.h = h32(self.h, lst(context), lst(action), lst(reward), lst(probability), "batch")
            self._write_info()
            return
        k = None
        if self.fmt.endswith("_kw"):
            k = kwargs["k"]
            # with the row-by-row batch fallback all predictions of a batch precede its learns: any outstanding value is fine
            if k not in self.mem["issued"]:
                raise AssertionError(f"HistoryLearner {self.tag}: kwargs of another prediction/learner came back")
            self.mem["issued"].remove(k)
            del self.mem["issued"][:-16]
        elif kwargs:
            raise AssertionError(f"HistoryLearner {self.tag}: unexpected kwargs {sorted(kwargs)}")
        self.n_learn += 1
        self.mem["trace"].append(h32(self.mem["trace"][-1] if self.mem["trace"] else 0, action, reward))
        self.h = h32(self.h, context, action, reward, probability, k)
        self._write_info()

    def _write_info(self):
        # info True: a value on every update; info "late": only from the 2nd update on, so the evaluation's rows are RAGGED
        # (the column first appears in a later row) - scalar valued, list-valued ragged cells are C07's
        if self.info == "late":
            if self.n_learn >= 2: CobaContext.learning_info["hist_late"] = self.h % 9973
        elif self.info:
            CobaContext.learning_info["hist"] = self.h % 9973

    def state(self):
        return (self.h, self.n_pred, self.n_learn, list(self.mem["trace"]))

class FinishingHistoryLearner(HistoryLearner):
    """HistoryLearner with the optional `finish()` hook: like a learner owning an external resource it releases its model when
    finished and refuses any later use. coba may call finish() on the per-evaluation copies it made itself; the listed object
    must stay as constructed (state_of sees `finished` and the released model)."""
    def __init__(self, *args, **kwargs):
        super().__init__(*args, **kwargs)
        self.finished = 0

    @property
    def params(self):
        return dict(super().params, finish=True)

    def _alive(self):
        if self.finished:
            raise RuntimeError(f"HistoryLearner {self.tag} was used after finish()")

    def score(self, context, actions, action):
        if actions is not None: self._alive()       # has_score() probes with (None, None, None)
        return super().score(context, actions, action)

    def predict(self, context, actions):
        self._alive()
        return super().predict(context, actions)

    def learn(self, context, action, reward, probability, **kwargs):
        self._alive()
        return super().learn(context, action, reward, probability, **kwargs)

    def finish(self):
        self.finished += 1
        self.mem = None

    def state(self):
        return (self.h, self.n_pred, self.n_learn, None if self.mem is None else list(self.mem["trace"]), self.finished)

class SizedHistoryLearner(HistoryLearner):
    """A learner with a length (= number of updates so far): FALSY while pristine, like any container-like user object."""
    def __len__(self):
        return self.n_learn

    @property
    def params(self):
        return dict(super().params, sized=True)

class SizedFinishingHistoryLearner(FinishingHistoryLearner):
    def __len__(self):
        return self.n_learn

    @property
    def params(self):
        return dict(super().params, sized=True)

class UncopyableHistoryLearner(HistoryLearner):
    """Owns a lock (think: a handle to an external model): copy.deepcopy and pickle raise TypeError. Its learned state lives in
    mutable containers (`mem`), so a shallow copy would share it."""
    def __init__(self, *args, **kwargs):
        super().__init__(*args, **kwargs)
        import threading
        self._lock = threading.Lock()

    @property
    def params(self):
        return dict(super().params, uncopyable=True)

    def learn(self, context, action, reward, probability, **kwargs):
        with self._lock:
            return super().learn(context, action, reward, probability, **kwargs)

HISTORY_CLASSES = {(False, False): HistoryLearner, (True, False): FinishingHistoryLearner,
                   (False, True): SizedHistoryLearner, (True, True): SizedFinishingHistoryLearner}

class DropKeys(EnvironmentFilter):
    """A user filter removing fields from every interaction (e.g. 'rewards': what plain logged data looks like)."""
    def __init__(self, keys):
        self.keys = list(keys)

    @property
    def params(self):
        return {"dropped": ",".join(self.keys)}

    def filter(self, interactions):
        for x in interactions:
            y = dict(x)
            for k in self.keys: y.pop(k, None)
            yield y

class FaultyLearner(Learner):
    """Delegates to `inner`; raises InjectedFault(msg) at `where` in {'params','predict','learn'} on call number `at` (0-based)."""
    def __init__(self, inner, where, at, msg, batches=False):
        self.inner = inner
        self.where = where
        self.at = at
        self.msg = msg
        self.batches = batches      # pass batched calls on to a batch-capable inner learner (and count them)
        self.calls = {"predict": 0, "learn": 0}

    @property
    def params(self):
        if self.where == "params":
            raise InjectedFault(self.msg)
        return SafeLearner(self.inner).params

    def _tick(self, name):
        n = self.calls[name]
        self.calls[name] = n + 1
        if self.where == name and n == self.at:
            raise InjectedFault(self.msg)

    def score(self, context, actions, action):
        return self.inner.score(context, actions, action)

    # The wrapper takes no batches: a batched call fails visibly *before* it counts, so SafeLearner falls back to row-by-row calls
    # and the j-th per-row call is the one that raises (an InjectedFault raised by the batched probe itself would be absorbed by
    # that fallback by design and the evaluation would succeed).
    # With batches=True (inner learner is batch-capable) batched calls are counted and passed on: the fault is ONE-SHOT (the
    # counter advances before raising), so a caller that retried the call would succeed - coba must not retry once the batch
    # convention is established; `at` >= 1 is used there because the very first batched call is a probe by design.
    def predict(self, context, actions):
        if not self.batches and (is_batch(actions) or is_batch(context)): raise TypeError("FaultyLearner takes no batches")
        self._tick("predict")
        return self.inner.predict(context, actions)

    def learn(self, context, action, reward, probability, **kwargs):
        if not self.batches and (is_batch(context) or is_batch(action) or is_batch(reward)): raise TypeError("FaultyLearner takes no batches")
        self._tick("learn")
        return self.inner.learn(context, action, reward, probability, **kwargs)

# --------------------------------------------------------------------------------------------- environment filters
class FaultyRead(EnvironmentFilter):
    """Raises InjectedFault(msg) when interaction number `at` (0-based) is requested, or at exhaustion if there are fewer."""
    def __init__(self, at, msg):
        self.at = at
        self.msg = msg

    @property
    def params(self):
        return {}

    def filter(self, interactions):
        for i, x in enumerate(interactions):
            if i == self.at:
                raise InjectedFault(self.msg)
            yield x
        raise InjectedFault(self.msg)

class FaultyParams(EnvironmentFilter):
    """Identity on interactions; building the params raises InjectedFault(msg)."""
    def __init__(self, msg):
        self.msg = msg

    @property
    def params(self):
        raise InjectedFault(self.msg)

    def filter(self, interactions):
        return interactions

# --------------------------------------------------------------------------------------------- evaluators
def _reward_of(interaction, action):
    if "rewards" in interaction:
        r = interaction["rewards"]
        return r(action) if callable(r) else r[list(interaction["actions"]).index(action)]
    return float(interaction.get("reward", 0))

def _play(environment, learner, seed):
    """Yield (index, reward) while running learner through the environment on-policy (uses SafeLearner as coba's evaluators do)."""
    from coba.environments import Unbatch
    lrn = SafeLearner(learner, seed)
    for i, inter in enumerate(Unbatch().filter(environment.read())):     # these user evaluators work one interaction at a time
        a, p, kw = lrn.predict(inter.get("context"), inter["actions"])
        r = _reward_of(inter, a)
        lrn.learn(inter.get("context"), a, r, p, **kw)
        yield i, r

def eval_fn_rows(environment, learner):
    """Custom function evaluator: one row per interaction; falls back on the experiment seed as built-in evaluators do."""
    seed = CobaContext.store.get("experiment_seed")
    for i, r in _play(environment, learner, seed):
        yield {"reward": r, "step": i, "seed_seen": seed}

def eval_fn_summary(environment, learner):
    """Custom function evaluator: a single summary row (returns a list, not a generator)."""
    seed = CobaContext.store.get("experiment_seed")
    rs = [r for _, r in _play(environment, learner, seed)]
    return [{"n_interactions": len(rs), "total": float(sum(rs)), "seed_seen": seed}]

class TagEvaluator(Evaluator):
    """Custom class evaluator: a row every `stride` interactions; raises InjectedFault after yielding `fault_after` rows.

    seed None -> falls back on CobaContext.store['experiment_seed'] (like SequentialCB).
    """
    def __init__(self, tag, stride=1, seed=None, fault_after=None, msg=None, ragged=False, tail=False):
        self.tag = tag
        self.stride = stride
        self.seed = seed
        self.fault_after = fault_after
        self.msg = msg
        self.ragged = ragged     # rows from the 2nd on carry an extra scalar field
        self.tail = tail         # a final summary row, also for an environment without interactions

    @property
    def params(self):
        return {"tag": self.tag, "stride": self.stride, "seed": self.seed, "ragged": self.ragged, "tail": self.tail}

    def evaluate(self, environment, learner):
        seed = self.seed if self.seed is not None else CobaContext.store.get("experiment_seed")
        n_rows, acc, cnt, total = 0, 0.0, 0, 0
        for i, r in _play(environment, learner, seed):
            acc += r; cnt += 1
            if cnt == self.stride:
                if self.fault_after is not None and n_rows >= self.fault_after:
                    raise InjectedFault(self.msg)
                row = {"reward": acc / cnt, "upto": i, "vtag": self.tag}
                if self.ragged and n_rows >= 1: row["late"] = n_rows
                yield row
                n_rows += 1
                total += 1
                acc, cnt = 0.0, 0
        if self.fault_after is not None:
            raise InjectedFault(self.msg)
        if self.tail:
            yield {"n_rows": total, "vtag": self.tag}

# --------------------------------------------------------------------------------------------- LambdaSimulation functions
def lam_ctx_vec(i):            return [i % 3, (i * 7) % 5]
def lam_ctx_none(i):           return None
def lam_ctx_str(i):            return "c%d" % (i % 4)
def lam_ctx_sparse(i):         return {"a": i % 3, "b%d" % (i % 2): 1}
def lam_acts_int(i, c):        return [0, 1, 2]
def lam_acts_str(i, c):        return ["x", "y", "z", "w"][: 2 + i % 3]
def lam_acts_vec(i, c):        return [[1, 0], [0, 1], [1, 1]]
def lam_rwd_mod(i, c, a):      return (h32(i, a) % 5) / 4.0

def lam_ctx_rng(i, rng):       return [round(rng.random(), 3), i % 2]
def lam_acts_rng(i, c, rng):   return [0, 1, 2, 3][: 2 + rng.randint(0, 2)]
def lam_rwd_rng(i, c, a, rng): return round(rng.random(), 4)

LAMBDAS = {
    "vec_int":    (lam_ctx_vec,    lam_acts_int, lam_rwd_mod, False),
    "none_str":   (lam_ctx_none,   lam_acts_str, lam_rwd_mod, False),
    "str_vec":    (lam_ctx_str,    lam_acts_vec, lam_rwd_mod, False),
    "sparse_int": (lam_ctx_sparse, lam_acts_int, lam_rwd_mod, False),
    "rng":        (lam_ctx_rng,    lam_acts_rng, lam_rwd_rng, True),
}
