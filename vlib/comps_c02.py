"""Module-level (picklable, spawn-importable) components and the small experiment builder used by props/c02.py.

Everything here is plain data in / coba objects out:

    build_triples(desc, side_path) -> (triples, description)

builds the (environment, learner, evaluator) triples of an experiment from a *descriptor* (dict of lists, see
props/c02.py::descriptors). Every environment, learner and evaluator is wrapped by a thin recorder wrapper carrying a
*tag* (its index in the descriptor). `RecEvaluator.evaluate` appends one line "<env tag> <learner tag> <evaluator tag>"
to an append-only side file (O_APPEND, one os.write per line, so it also works from spawned worker processes) every
time a triple is evaluated, before delegating to the wrapped evaluator. The wrappers forward `params` unchanged, so
the baseline run and the resumed twin (both built by this module, with different side files) produce the same tables.
"""
import os, math

from vlib.util import use_repo
use_repo()

from coba.environments import Environments
from coba.learners import RandomLearner, BanditEpsilonLearner, BanditUCBLearner
from coba.evaluators import SequentialCB
from coba.safety import SafeEvaluator
from coba.context import CobaContext

# ------------------------------------------------------------------------------------------------ environments
def _lcg(seed):
    s = (seed * 2654435761 + 12345) % 2**31
    while True:
        s = (s * 1103515245 + 12345) % 2**31
        yield s

class GridReward:
    """Picklable reward function over hashable actions."""
    def __init__(self, table):
        self._table = table
    def __call__(self, action):
        return self._table[action]
    def __eq__(self, o):
        return isinstance(o, GridReward) and o._table == self._table

class GridEnv:
    """A tiny deterministic simulated environment; context kind and action type come from the descriptor."""
    def __init__(self, n, n_actions, seed, ctx="dense", act="int", extra=False):
        self._n, self._na, self._seed, self._ctx, self._act, self._extra = n, n_actions, seed, ctx, act, extra

    @property
    def params(self):
        return {"env_type": "GridEnv", "n": self._n, "na": self._na, "gseed": self._seed, "ctx": self._ctx, "act": self._act}

    def read(self):
        g = _lcg(self._seed)
        for i in range(self._n):
            a, b = next(g) % 7, next(g) % 5
            if self._ctx == "none": context = None
            elif self._ctx == "str": context = "c%d" % a
            elif self._ctx == "sparse": context = {"k%d" % a: 1, "z": b / 4}
            elif self._ctx == "scalar": context = a
            else: context = (a, b / 4, "w%d" % (b % 2))
            if self._act == "str": actions = ["a%d" % j for j in range(self._na)]
            elif self._act == "tuple": actions = [(j, (j * j) % 3) for j in range(self._na)]
            else: actions = [j + 2 for j in range(self._na)]
            rewards = [((next(g) % 9) / 8) for _ in actions]
            out = {"context": context, "actions": actions, "rewards": rewards}
            if self._extra: out["tick"] = i * 3 + self._seed
            yield out

class EmptyEnv:
    """An environment without interactions (e.g. what a strict `take` larger than the data leaves)."""
    def __init__(self, label=0):
        self._label = label
    @property
    def params(self):
        return {"env_type": "EmptyEnv", "label": self._label}
    def read(self):
        return iter(())

# ------------------------------------------------------------------------------------------------ learners
class HistLearner:
    """Stateful: every prediction depends on the complete learn history; also reports a kwarg and learning info."""
    def __init__(self, k=3, info=False):
        self._k, self._info, self._h, self._t = k, info, 0, 0
    @property
    def params(self):
        return {"family": "Hist", "k": self._k, "info": self._info}
    def predict(self, context, actions):
        i = (self._h + self._t * self._k) % len(actions)
        if self._info:
            CobaContext.learning_info["h"] = self._h % 1000
        return actions[i], 1.0, {"i": i}
    def learn(self, context, action, reward, probability, i):
        self._t += 1
        self._h = (self._h * 31 + int(round(reward * 8)) + 7 * i + len(repr(context))) % 1000003

class PmfLearner:
    """Returns a PMF (the evaluator's seeded rng picks the action)."""
    def __init__(self, lean=0.5):
        self._lean, self._n = lean, 0
    @property
    def params(self):
        return {"family": "Pmf", "lean": self._lean}
    def predict(self, context, actions):
        k = len(actions)
        if k == 1: return actions[0], 1.0             # a one-element PMF cannot be told from an action
        fav = self._n % k
        rest = (1 - self._lean) / (k - 1)
        return [self._lean if j == fav else rest for j in range(k)]
    def learn(self, context, action, reward, probability):
        self._n += 1 + int(reward > 0.5)

# ------------------------------------------------------------------------------------------------ evaluators
def summary_eval(environment, learner):
    """A function evaluator producing a single summary row."""
    n, s = 0, 0
    for it in environment.read():
        n += 1
        s += len(it["actions"])
    return [{"n_seen": n, "n_act": s, "ratio": (s / n if n else float("inf")), "lrn": type(getattr(learner, "inner", learner)).__name__}]

class RowsEval:
    """A class evaluator yielding rows with ragged keys, a nested value and a non-finite number."""
    def __init__(self, every=2):
        self._every = every
    @property
    def params(self):
        return {"every": self._every}
    def evaluate(self, environment, learner):
        for i, it in enumerate(environment.read()):
            row = {"reward": float(i % 3) / 2, "pos": [i, i + 1]}
            if i % self._every == 0: row["mark"] = "m%d" % i
            if i % 5 == 4: row["nf"] = float("nan")
            yield row

class WideEval:
    """A class evaluator whose rows carry a long pseudo-random string, to get records (and logs) far beyond 64 KiB."""
    def __init__(self, width, rows=1, const=False):
        self._width, self._rows, self._const = width, rows, const      # const: one repeated character (inflates > 1000:1 under gzip)
    @property
    def params(self):
        return {"width": self._width, "rows": self._rows, "const": self._const}
    def evaluate(self, environment, learner):
        import hashlib
        n = sum(1 for _ in environment.read())
        for i in range(self._rows):
            if self._const:
                yield {"reward": (i + 1) / (self._rows + 1), "blob": "z" * self._width}
                continue
            h, parts, size = ("%d/%d/%d" % (self._width, i, n)).encode(), [], 0
            while size < self._width:
                h = hashlib.sha256(h).hexdigest().encode()
                parts.append(h.decode()); size += 64
            yield {"reward": (i + 1) / (self._rows + 1), "blob": "".join(parts)[:self._width]}

# ------------------------------------------------------------------------------------------------ recorder wrappers
class RecEnv:
    def __init__(self, tag, inner):
        self.tag, self.inner = tag, inner
    @property
    def params(self):
        return self.inner.params
    def read(self):
        return self.inner.read()
    def __iter__(self):
        # coba's ChunkTasks looks through an environment's pipes for a shared Chunk marker: show the wrapped pipeline
        return iter(self.inner)

class RecLearner:
    def __init__(self, tag, inner):
        self.tag, self.inner = tag, inner
    @property
    def params(self):
        p = self.inner.params
        return p() if callable(p) else p
    def predict(self, context, actions):
        return self.inner.predict(context, actions)
    def learn(self, context, action, reward, probability, **kwargs):
        return self.inner.learn(context, action, reward, probability, **kwargs)

class RecEvaluator:
    calls = 0            # evaluations started in this process
    kill_after = None    # real-kill runs: the process dies (os._exit, no cleanup) when evaluation number kill_after+1 starts
    def __init__(self, tag, inner, side_path):
        self.tag, self.inner, self.side_path = tag, inner, side_path
    @property
    def params(self):
        return dict(SafeEvaluator(self.inner).params)
    def evaluate(self, environment, learner):
        if RecEvaluator.kill_after is not None and RecEvaluator.calls >= RecEvaluator.kill_after:
            os._exit(17)
        RecEvaluator.calls += 1
        line = ("%s %s %s\n" % (getattr(environment, "tag", "?"), getattr(learner, "tag", "?"), self.tag)).encode()
        fd = os.open(self.side_path, os.O_WRONLY | os.O_APPEND | os.O_CREAT, 0o600)
        try:
            os.write(fd, line)
        finally:
            os.close(fd)
        return list(SafeEvaluator(self.inner).evaluate(environment, learner))

def read_side(side_path):
    """list of (env tag, learner tag, evaluator tag) in the order the evaluations started"""
    if not os.path.exists(side_path):
        return []
    with open(side_path, "rb") as f:
        return [tuple(int(x) for x in ln.split()) for ln in f.read().decode().splitlines() if ln.strip()]

# ------------------------------------------------------------------------------------------------ builder
def make_env(d, groups=None):
    """groups: per-build dict; environments whose descriptor names the same "group" are shuffles of ONE chunk()ed base and
    share its Chunk pipe, which is what makes coba put their tasks into one chunk"""
    k = d["kind"]
    if "group" in d:
        key = (d["group"], d["n"], d["na"], d["seed"], d.get("ncf", 2), d.get("naf", 2))
        groups = {} if groups is None else groups
        if key not in groups:
            groups[key] = Environments.from_linear_synthetic(d["n"], n_actions=d["na"], n_context_features=d.get("ncf", 2),
                                                             n_action_features=d.get("naf", 2), seed=d["seed"]).chunk()
        return groups[key].shuffle(d["shuffle"])[0]
    if k == "empty":
        return EmptyEnv(d.get("label", 0))
    if k == "grid":
        return GridEnv(d["n"], d["na"], d["seed"], d.get("ctx", "dense"), d.get("act", "int"), d.get("extra", False))
    if k == "linear":
        envs = Environments.from_linear_synthetic(d["n"] + d.get("more", 0), n_actions=d["na"], n_context_features=d.get("ncf", 2),
                                                  n_action_features=d.get("naf", 2), seed=d["seed"])
    elif k == "neighbors":
        envs = Environments.from_neighbors_synthetic(d["n"] + d.get("more", 0), n_actions=d["na"], n_context_features=d.get("ncf", 2),
                                                     n_action_features=d.get("naf", 2), n_neighborhoods=3, seed=d["seed"])
    else:
        raise ValueError(k)
    for f in d.get("filters", ()):
        if f[0] == "shuffle": envs = envs.shuffle(f[1])
        elif f[0] == "take": envs = envs.take(d["n"])
        elif f[0] == "take_strict": envs = envs.take(f[1], strict=True)
        elif f[0] == "scale": envs = envs.scale("min", "minmax", using=f[1])
        elif f[0] == "chunk": envs = envs.chunk()
        else: raise ValueError(f)
    return envs[0]

def make_lrn(d):
    k = d["kind"]
    if k == "random": return RandomLearner()
    if k == "epsilon": return BanditEpsilonLearner(d.get("eps", 0.1))
    if k == "ucb": return BanditUCBLearner()
    if k == "hist": return HistLearner(d.get("k", 3), d.get("info", False))
    if k == "pmf": return PmfLearner(d.get("lean", 0.5))
    raise ValueError(k)

def make_val(d):
    k = d["kind"]
    if k == "seq": return SequentialCB(record=list(d.get("record", ["reward"])), learn=d.get("learn", "on"), eval=d.get("eval", "on"), seed=d.get("seed"))
    if k == "func": return summary_eval
    if k == "rows": return RowsEval(d.get("every", 2))
    if k == "wide": return WideEval(d["width"], d.get("rows", 1), d.get("const", False))
    raise ValueError(k)

def triple_indices(desc):
    """the (env index, learner index, evaluator index) triples of a descriptor, in experiment order"""
    if desc["shape"] == "cross":
        return [(e, l, v) for e in range(len(desc["envs"])) for l in range(len(desc["lrns"])) for v in range(len(desc["vals"]))]
    return [tuple(t) for t in desc["tuples"]]

def assigned_ids(desc):
    """{tag triple: id triple} with ids given in order of first appearance, as documented for the log"""
    em, lm, vm, out = {}, {}, {}, {}
    for e, l, v in triple_indices(desc):
        em.setdefault(e, len(em)); lm.setdefault(l, len(lm)); vm.setdefault(v, len(vm))
        out[(e, l, v)] = (em[e], lm[l], vm[v])
    return out

def build_triples(desc, side_path):
    groups = {}
    envs = [RecEnv(i, make_env(d, groups)) for i, d in enumerate(desc["envs"])]
    lrns = [RecLearner(i, make_lrn(d)) for i, d in enumerate(desc["lrns"])]
    vals = [RecEvaluator(i, make_val(d), side_path) for i, d in enumerate(desc["vals"])]
    return [(envs[e], lrns[l], vals[v]) for e, l, v in triple_indices(desc)], desc.get("description")

def build_args(desc, side_path):
    """(args, kwargs) for Experiment(...): the cross-product form where the descriptor asks for it, else a tuple list"""
    if desc["shape"] == "cross":
        groups = {}
        envs = [RecEnv(i, make_env(d, groups)) for i, d in enumerate(desc["envs"])]
        lrns = [RecLearner(i, make_lrn(d)) for i, d in enumerate(desc["lrns"])]
        vals = [RecEvaluator(i, make_val(d), side_path) for i, d in enumerate(desc["vals"])]
        return (envs, lrns, vals), {"description": desc.get("description")}
    triples, descr = build_triples(desc, side_path)
    return (triples,), {"description": descr}

# ------------------------------------------------------------------------------------------------ child entry for real kills
def main():
    """python -m vlib.comps_c02 '<json: desc, path, side, kill_after>': run the experiment in THIS process and die without any
    cleanup (os._exit) when evaluation number kill_after+1 starts. Exit code 17 = killed, 0 = the run finished before that."""
    import sys, json
    from coba.experiments import Experiment
    from coba.context import NullLogger
    a = json.loads(sys.argv[1])
    CobaContext.search_paths = [os.getcwd()]
    CobaContext.logger = NullLogger()
    RecEvaluator.kill_after = a["kill_after"]
    args, kwargs = build_args(a["desc"], a["side"])
    Experiment(*args, **kwargs).run(a["path"], quiet=True, seed=a["desc"]["seed"], processes=1, maxchunksperchild=0, maxtasksperchunk=0)

if __name__ == "__main__":
    main()
