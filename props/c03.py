"""C03 Each evaluation is isolated from every other evaluation.

Oracles (DESIGN.md section 6, C03)
  (a) solo    - the rows of each (environment, learner, evaluator) triple in the multi-triple Result, and the parameter rows
                of its three components, equal those of a one-triple experiment built *freshly* from the same descriptor
                (fresh twin learner, that environment alone), run in-process inside a pristine forked process.
  (b) context - deleting / permuting the other triples leaves a triple's rows unchanged (rows are matched through the
                component indices of the descriptor, never through ids; the id -> component mapping of each Result is
                cross-checked through the parameter rows in (a)).
  (c) faults  - one component raises InjectedFault(marker) at params construction / j-th predict / j-th learn (also one-shot
                inside a batch-capable learner on a batched environment, j >= 1) / j-th
                interaction of read / after the evaluator yielded j rows: run() does not raise, every triple whose solo run
                is hit by the fault has NO rows, every other triple is present and solo-equal, the captured log contains the
                marker at least once per failing triple.
  (d) user's learner objects after run(): a learner object listed in >= 2 triples is left exactly as a never-used twin
      (some doubles implement the optional finish() hook, which releases their model: the listed object is never finished).
Executed in-process, through the simulated workers of C01 (owned schedule) and through a few really spawned workers.
"""
from hypothesis import strategies as st

from vlib.core import Sub
from vlib.util import Violation, require, use_repo
use_repo()
from vlib import expgen as G
from vlib import comps_exp as comps

ID = "C03"
LEVEL = "exploration"
DESIGN_REF = "DESIGN.md section 6, C03"
RULE = ("cases = (experiment descriptor with generated sharing of learner / environment / evaluator objects between triples, "
        "execution mode in-process | simulated workers with a generated schedule | real workers, a permutation+subset of the "
        "triples, optionally a fault plan (component, position)); learners are mostly doubles whose every prediction and "
        "recorded field depends on their full learn history; a case is non-trivial when a learner object occurs in >= 2 triples "
        "or a fault plan makes at least one triple fail while another survives; distinct = distinct canonical JSON of the case")
ASSUMPTIONS = [
    "integer experiment seed; deterministic components (as C01)",
    "every generated triple is evaluable when no fault is injected (as C01)",
    "the solo reference run is an in-process run of Experiment itself (one triple, fresh objects) - the evaluators are trusted to C06",
    "a learner that cannot be deep-copied (owns a lock) and is listed in >= 2 triples cannot be evaluated from a pristine copy: the error must be logged per triple and no rows recorded (in-process only; such an object cannot be pickled for workers)",
    "a fault in params construction is not tied to a triple: all triples must still be recorded; an evaluator's params fault is swallowed by SafeEvaluator by design and is not generated",
    "the log is required to contain the fault marker at least once per failing triple; wording and multiplicity beyond that are not asserted",
    "a learner listed in exactly one triple may be trained in place by an in-process run (documented behaviour pinned by coba's tests); only learners listed in >= 2 triples are required to stay pristine",
]

FID_INPLACE = "C03-inplace-evaluation-leaks-through-shared-sublearner"
MARK = "injected-fault-7f3a"

# ----------------------------------------------------------------------------------------------- core oracle
ID_COLS = {"environments": "environment_id", "learners": "learner_id", "evaluators": "evaluator_id"}

def run_mode(built, ex):
    mode = ex.get("mode", "inproc")
    if mode == "inproc":
        return G.run_built(built, "inproc", maxtasksperchunk=ex.get("t", 0))
    return G.run_built(built, mode, ex["p"], ex["c"], ex.get("t", 0), ex.get("sched", ()))

def param_row(snap, table, id_):
    row = snap[table]["rows"].get((id_,))
    return None if row is None else G.present(row, (ID_COLS[table],))

def solo_reference(desc, index_triple):
    """one-triple in-process run of fresh twins inside a PRISTINE forked process (expgen.run_fresh), so the reference cannot be
    coloured by what the harness process evaluated before; 'hit' = number of injected faults that fired during it (counted
    through the components' own side channel, NOT through coba's log, which is under test)"""
    f = G.run_fresh(G.solo_desc(desc, index_triple))
    require(f["error"] is None, "one-triple reference run raised: " + str(f["error"]))
    s = f["snapshot"]
    return {"rows": G.triple_rows(s, (0, 0, 0)),
            "params": {t: param_row(s, t, 0) for t in ID_COLS},
            "hit": sum(MARK in m for m in f["fired"]), "log": f["log"]}

def no_failures(log, what, allowed=None):
    bad = [l for l in G.unexpected_failures(log) if allowed is None or allowed not in l]
    require(not bad, f"{what}: an evaluation that should succeed raised", log=[l[-300:] for l in bad[:2]])

def check_against_solo(desc, built, snap, what):
    """every triple of `built` (run -> snap) equals its solo reference; returns the per-triple references"""
    refs = []
    for k, (it, ids) in enumerate(zip(built.index_triples, built.ids)):
        ref = solo_reference(desc, it)
        refs.append(ref)
        got = G.triple_rows(snap, ids)
        require(len(got) == len(ref["rows"]) and all(G.rows_eq(a, b) for a, b in zip(got, ref["rows"])),
                f"{what}: rows of triple #{k} (env {it[0]}, learner {it[1]}, evaluator {it[2]}) differ from evaluating a fresh twin of that triple alone",
                ids=ids, n_multi=len(got), n_solo=len(ref["rows"]),
                first_diff=next(((i, a, b) for i, (a, b) in enumerate(zip(got, ref["rows"])) if not G.rows_eq(a, b)), None))
        for table, id_ in zip(ID_COLS, ids):
            a, b = param_row(snap, table, id_), ref["params"][table]
            require((a is None) == (b is None) and (a is None or G.rows_eq(a, b)),
                    f"{what}: {table} row {id_} of triple #{k} differs from the parameters of that component evaluated alone", multi=a, solo=b)
    return refs

def pristine_check(desc, built, what):
    twin = G.build(desc)
    for li, n in built.learner_counts().items():
        if n >= 2:
            a, b = G.state_of(built.learners[li]), G.state_of(twin.learners[li])
            require(a == b, f"{what}: learner #{li} is listed in {n} triples but the user's object was modified by run()", after=a, fresh=b)

def run_solo(case):
    desc, ex = case["desc"], case["exec"]
    built = G.build(desc)
    o = run_mode(built, ex)
    if o.error is not None: raise o.error
    snap = G.snapshot(o.result)
    what = f"{ex.get('mode', 'inproc')} run"
    no_failures(o.log, what)
    check_against_solo(desc, built, snap, what)
    pristine_check(desc, built, what)
    # (b) delete / permute the other triples
    n = len(built.index_triples)
    order = [i for i in permutation(n, case.get("swaps", [])) if case["keep"][i % len(case["keep"])]] if case.get("keep") else []
    if order:
        kept = [built.index_triples[i] for i in order]
        b2 = G.build(G.subset_desc(desc, kept))
        require(len(b2.index_triples) == len(kept), "harness: subset experiment lost a triple", kept=kept, got=b2.index_triples)
        o2 = G.run_built(b2)
        if o2.error is not None: raise o2.error
        s2 = G.snapshot(o2.result)
        for j, i in enumerate(order):
            a, b = G.triple_rows(snap, built.ids[i]), G.triple_rows(s2, b2.ids[j])
            require(len(a) == len(b) and all(G.rows_eq(x, y) for x, y in zip(a, b)),
                    f"rows of triple #{i} change when the other triples are deleted/permuted (kept {order})",
                    ids_full=built.ids[i], ids_subset=b2.ids[j], n_full=len(a), n_subset=len(b))

def permutation(n, swaps):
    idx = list(range(n))
    if swaps:
        for i in range(n - 1, 0, -1):
            j = swaps[i % len(swaps)] % (i + 1)
            idx[i], idx[j] = idx[j], idx[i]
    return idx

def run_uncopyable(case, fault, desc):
    """A learner that cannot be deep-copied, in-process. Where a pristine copy is needed (listed in >= 2 triples) none can be
    made: the TypeError is reported for each of those triples, they have no rows (never rows from a shared or in-place object),
    the listed object stays untouched; every other triple is solo-equal. Listed once, it is evaluated like any other learner."""
    built = G.build(desc)
    target = [i for i, l in enumerate(desc["learners"]) if l.get("uncopyable")]
    o = run_mode(built, {"mode": "inproc", "t": case["exec"].get("t", 0)})
    what = "inproc run with an un-deep-copyable learner"
    require(o.error is None, f"{what}: run() itself raised {type(o.error).__name__}: {o.error}")
    snap = G.snapshot(o.result)
    counts = built.learner_counts()
    failing = [k for k, it in enumerate(built.index_triples) if it[1] in target and counts[it[1]] >= 2]
    lock_lines = [l for l in o.log if "lock" in l]
    bad = [l for l in G.unexpected_failures(o.log) if l not in lock_lines]
    require(not bad, f"{what}: an evaluation that should succeed raised", log=[l[-300:] for l in bad[:2]])
    for k in failing:
        got = G.triple_rows(snap, built.ids[k])
        require(not got, f"{what}: no pristine copy of learner #{built.index_triples[k][1]} can be made for triple #{k}, yet {len(got)} rows were recorded", ids=built.ids[k])
    require(len(lock_lines) >= len(failing), f"{what}: {len(failing)} evaluation(s) could not copy their learner but the log reports {len(lock_lines)}", log=[l[-200:] for l in o.log][:3])
    for k, (it, ids) in enumerate(zip(built.index_triples, built.ids)):
        if k in failing: continue
        ref = solo_reference(desc, it)
        got = G.triple_rows(snap, ids)
        require(len(got) == len(ref["rows"]) and all(G.rows_eq(a, b) for a, b in zip(got, ref["rows"])),
                f"{what}: rows of triple #{k} (env {it[0]}, learner {it[1]}, evaluator {it[2]}) differ from evaluating a fresh twin of that triple alone",
                ids=ids, n_multi=len(got), n_solo=len(ref["rows"]))
    pristine_check(desc, built, what)
    case["_stats"] = (len(failing), len(built.index_triples))

def run_faults(case):
    fault = dict(case["fault"], msg=MARK + "-" + case["fault"]["kind"])
    desc = G.apply_fault(case["desc"], fault)
    if fault["kind"] == "lrn_uncopyable" and any(l.get("uncopyable") for l in desc["learners"]):
        return run_uncopyable(case, fault, desc)
    ex = case["exec"]
    built = G.build(desc)
    o = run_mode(built, ex)
    what = f"{ex.get('mode', 'inproc')} run with {fault['kind']} fault"
    require(o.error is None, f"{what}: run() itself raised {type(o.error).__name__}: {o.error}")
    snap = G.snapshot(o.result)
    no_failures(o.log, what, allowed=MARK)
    refs = check_against_solo(desc, built, snap, what)
    failing = [k for k, r in enumerate(refs) if r["hit"] and fault["kind"] not in ("lrn_params", "env_params")]
    for k in failing:
        got = G.triple_rows(snap, built.ids[k])
        require(not got and not refs[k]["rows"], f"{what}: triple #{k} raised but {len(got)} of its rows were recorded", ids=built.ids[k])
    hits = sum(MARK in line for line in o.log)
    need = len(failing)
    if fault["kind"] in ("lrn_params", "env_params"):
        need = 1 if any(r["hit"] for r in refs) else 0
    require(hits >= need, f"{what}: {need} evaluation(s) raised but the log mentions the exception {hits} time(s)", log=[l[-200:] for l in o.log][:4])
    pristine_check(desc, built, what)
    case["_stats"] = (len(failing), len(refs))          # not part of the case identity (removed by key/view)

# ----------------------------------------------------------------------------------------------- strategies
def _desc(tier, **kw):
    big = tier == "thorough"
    base = dict(max_groups=2, max_n=16 if big else 10, max_triples=8, max_learners=3, max_evaluators=2, p_history=0.75,
                logged_share=0.2, p_tuples=0.6, p_corral_refs=0.2)
    base.update(kw)
    return G.experiments(**base)

@st.composite
def exec_cfg(draw, modes=("inproc", "sim")):
    mode = draw(st.sampled_from(modes))
    if mode == "inproc":
        return {"mode": "inproc", "t": draw(st.sampled_from([0, 0, 1, 2]))}
    p = draw(st.integers(1, 4)); c = draw(st.integers(0, 2))
    if p == 1 and c == 0: p = 2
    ex = {"mode": mode, "p": p, "c": c, "t": draw(st.sampled_from([0, 0, 1, 2, 3]))}
    if mode == "sim": ex["sched"] = draw(st.lists(st.integers(0, 3), max_size=16))
    return ex

@st.composite
def solo_cases(draw, tier, modes=("inproc", "inproc", "sim")):
    return {"desc": draw(_desc(tier)), "exec": draw(exec_cfg(modes)),
            "swaps": draw(st.lists(st.integers(0, 20), max_size=10)), "keep": draw(st.lists(st.booleans(), min_size=1, max_size=8))}

@st.composite
def fault_plan(draw):
    return {"kind": draw(st.sampled_from(["lrn_predict", "lrn_predict", "lrn_learn", "lrn_learn", "env_read", "env_read", "val_rows", "val_rows", "lrn_params", "env_params"])),
            "target": draw(st.integers(0, 7)), "at": draw(st.sampled_from([0, 0, 0, 1, 1, 2, 3, 5]))}

def partial_targets(desc):
    """(kind-family, index) of components that occur in some but not all triples (a fault there splits the experiment)"""
    trip = G.static_triples(desc)
    out = []
    for pos, fam in ((0, "env"), (1, "lrn"), (2, "val")):
        vals = {t[pos] for t in trip if t[pos] is not None}
        for x in sorted(vals):
            n = sum(t[pos] == x for t in trip)
            if 0 < n < len(trip): out.append((fam, x))
    return out

@st.composite
def fault_cases(draw, tier, modes=("inproc", "inproc", "sim")):
    desc = draw(_desc(tier))
    fault = draw(fault_plan())
    cands = partial_targets(desc)
    if cands and draw(st.integers(0, 9)) < 8:           # mostly aim at a component that only some triples use
        fam, x = draw(st.sampled_from(cands))
        kinds = {"env": ["env_read", "env_read", "env_params"], "lrn": ["lrn_predict", "lrn_learn", "lrn_learn", "lrn_params"], "val": ["val_rows"]}[fam]
        fault = {"kind": draw(st.sampled_from(kinds)), "target": x, "at": draw(st.sampled_from([0, 0, 0, 1, 1, 2]))}
    # batched experiments: mostly a one-shot fault INSIDE a batch-capable learner after the batch convention is established
    capable = [i for i, l in enumerate(desc["learners"]) if G.batch_capable(l)]
    if capable and any(op[0] == "batch" for g in desc["groups"] for op in g["ops"]) and draw(st.integers(0, 9)) < 6:
        fault = {"kind": draw(st.sampled_from(["lrn_predict_b", "lrn_learn_b", "lrn_learn_b"])), "target": draw(st.sampled_from(capable)),
                 "at": draw(st.sampled_from([1, 1, 1, 2]))}
    # a learner that cannot be deep-copied (in-process only: it cannot be pickled for workers either)
    hist = [i for i, l in enumerate(desc["learners"]) if l["kind"] == "history"]
    if hist and "real" not in modes and draw(st.integers(0, 9)) < 1:
        shared = [i for i in hist if i in G.shared_learners(desc)] or hist
        return {"desc": desc, "exec": {"mode": "inproc", "t": draw(st.sampled_from([0, 0, 1, 2]))},
                "fault": {"kind": "lrn_uncopyable", "target": draw(st.sampled_from(shared)), "at": 0}}
    return {"desc": desc, "exec": draw(exec_cfg(modes)), "fault": fault}

@st.composite
def real_cases(draw, tier):
    if draw(st.booleans()):
        return draw(fault_cases(tier, modes=("real",)))
    return {"desc": draw(_desc(tier)), "exec": draw(exec_cfg(("real",))), "swaps": [], "keep": []}

def run_real(case):
    if "fault" in case: run_faults(case)
    else: run_solo(case)

# ----------------------------------------------------------------------------------------------- evidence
def strip(case):
    return {k: v for k, v in case.items() if not k.startswith("_")}

def faulted_desc(case):
    if "fault" not in case: return case["desc"]
    return G.apply_fault(case["desc"], dict(case["fault"], msg=MARK))

def nontrivial(case):
    if "fault" in case:
        s = case.get("_stats")
        if s is not None: return 0 < s[0] < s[1]
        return len(G.static_triples(case["desc"])) >= 2
    return bool(G.shared_learners(case["desc"]))

def classes(case):
    desc = case["desc"]
    out = G.desc_classes(desc)
    if G.shared_learners(desc): out.append("shared-learner-object")
    trip = G.static_triples(desc)
    if len({e for e, _, _ in trip}) < len(trip): out.append("shared-environment-object")
    if G.has_ref_corral(desc): out.append("corral-over-listed-learner")
    fin = [i for i, l in enumerate(desc["learners"]) if (l["inner"] if l["kind"] == "faulty" else l).get("finish") and l["kind"] != "faulty"]
    if set(fin) & set(G.shared_learners(desc)): out.append("shared-learner-with-finish-hook")
    out.append("exec=" + case["exec"].get("mode", "inproc"))
    if "fault" in case:
        out.append("fault=" + case["fault"]["kind"])
        s = case.get("_stats")
        if s is not None:
            out.append("fault-outcome=" + ("none-failed" if s[0] == 0 else "all-failed" if s[0] == s[1] else "some-failed"))
    else:
        out.append("context-check=" + ("yes" if case.get("keep") and any(case["keep"]) else "no"))
    return out

def classify(case, exc):
    """Listed finding: an in-process run evaluates a learner that is listed once in place; another listed learner holding a
    reference to it (CorralLearner over listed learners) is then not evaluated from a pristine state - in-process, and inside a
    worker too when both tasks travel in one chunk() (one pickle). Matched only for that input pattern (a listed learner
    referenced from inside another listed learner) and only for the solo-rows / context / pristine-object clauses."""
    if not isinstance(exc, Violation): return None
    if not G.has_ref_corral(case["desc"]): return None
    msg = str(exc)
    if ("differ from evaluating a fresh twin of that triple alone" in msg or "change when the other triples are deleted/permuted" in msg
            or "but the user's object was modified by run()" in msg):
        return FID_INPLACE
    return None

SUBCHECKS = [
    Sub(name="solo", run=run_solo, strategy=solo_cases, nontrivial=nontrivial, classes=classes, classify=classify, key=strip, sample_view=strip,
        quick=600, thorough=9000, quick_shards=3, thorough_shards=6, quick_budget_s=45, thorough_budget_s=780,
        what="every triple's rows and parameter rows == one-triple run of a fresh twin; rows unchanged when other triples are deleted/permuted; shared learner objects pristine after run(); in-process and simulated workers"),
    Sub(name="faults", run=run_faults, strategy=fault_cases, nontrivial=nontrivial, classes=classes, classify=classify, key=strip, sample_view=strip,
        quick=600, thorough=9000, quick_shards=3, thorough_shards=6, quick_budget_s=45, thorough_budget_s=780,
        what="one component raises at params / j-th predict / j-th learn / j-th interaction / after j evaluator rows: run() returns, failing triples have no rows, the others are solo-equal, the log carries the exception; in-process and simulated workers"),
    Sub(name="real", run=run_real, strategy=real_cases, nontrivial=nontrivial, classes=classes, classify=classify, key=strip, sample_view=strip,
        quick=16, thorough=320, quick_shards=2, thorough_shards=4, quick_budget_s=45, thorough_budget_s=780,
        what="the same solo and fault oracles with really spawned worker processes"),
]
