"""C01 Experiment results do not depend on execution configuration.

Oracle (differential + metamorphic): the four tables (keyed by primary key, row order included, timing columns
excluded, NaN-aware) and .experiment of Experiment.run under a generated configuration equal those of an in-process
run of a *freshly built twin*; a second fresh in-process run equals the first, and so does the same in-process run inside a
pristine forked process (expgen.run_fresh) - a reused worker is a process with a different evaluation history. No evaluation of
a generated (evaluable by construction) triple may raise.

Three drivers (DESIGN.md section 6, C01):
  real  - Experiment.run(processes=p, maxchunksperchild=c, maxtasksperchunk=t) with really spawned workers;
          the OS schedule is sampled, not owned.
  sim   - the same call with coba.multiprocessing.Multiprocessor (the module global CobaMultiprocessor reaches)
          replaced by vlib.expgen.SimMultiprocessor: every chunk is pickled in the caller, every simulated worker owns
          an unpickled copy of CobaMultiprocessor.ProcessFilter (logger, cacher, store incl. experiment_seed - built by
          the real CobaMultiprocessor code), its own process-global CobaContext, retires after maxchunksperchild chunks;
          a Hypothesis-drawn schedule decides which worker advances, hence which worker gets which chunk and in which
          order outputs arrive. Everything else (MakeTasks, ChunkTasks, ProcessTasks, preamble, TransactionEncode,
          sink, TransactionDecode, TransactionResult) is the real pipeline of Experiment.run.
  perm  - arrival order only: the transaction lines of an in-process run are permuted (version line first) and decoded.
"""
from hypothesis import strategies as st

from vlib.core import Sub
from vlib.util import Violation, require, use_repo
use_repo()
from vlib import expgen as G

from coba.results import Result
from coba.pipes import ListSource

ID = "C01"
LEVEL = "exploration"
DESIGN_REF = "DESIGN.md section 6, C01"
RULE = ("cases = (experiment descriptor, execution configuration[, schedule | line permutation]); descriptors are generated "
        "(1-3 base environments from seeded built-ins / LambdaSimulation over module-level functions / SupervisedSimulation, "
        "optional shared chunk()/cache() prefix, shuffle(n=k)/seed-list/noise-seed/logged fan-out, take; Random, BanditEpsilon, "
        "BanditUCB, Corral and stateful / PMF / kwargs doubles, on batched (.batch(6-8)) environments doubles of one class that are batch-capable or not per instance; SequentialCB variants, RejectionCB on logged environments, custom "
        "function and class evaluators; cross product or tuple list with generated sharing; experiment seed); a case is "
        "non-trivial when the experiment has >= 2 triples and (processes > 1 or maxchunksperchild > 0 or the line permutation "
        "is not the identity); distinct = distinct canonical JSON of the whole case")
ASSUMPTIONS = [
    "the experiment seed is an integer: seed=None is time-seeded by design and excluded ('for a fixed experiment seed')",
    "components are deterministic functions of their constructor arguments and inputs (the doubles use crc32 digests, never hash()/id()/time)",
    "every generated triple is evaluable (RejectionCB only on logged environments, Corral only with rewards in [0,1], kwargs-returning learners not taught off-policy, >= 2 actions)",
    "avoided by construction because other properties own them: SupervisedSimulation(X,Y) one-shot zip (C04; a ListSource of pairs is used), Shuffle after Logged (C04 seed mutation on the abandoned peek of ProcessTasks), SequentialCB(record time, learn=None) (C06), ragged list-valued evaluator rows (C07)",
    "real worker processes: the OS schedule is sampled (one run per case); the simulated driver owns chunk->worker assignment and arrival order, not the kernel",
    "worker processes inherit PYTHONHASHSEED=0 from ./check, so a dependence on str hashing that differs between processes is not explored",
]

FID_INPLACE = "C01-inplace-evaluation-leaks-through-shared-sublearner"

# ----------------------------------------------------------------------------------------------- helpers
def no_failures(log, what):
    bad = G.unexpected_failures(log)
    require(not bad, f"{what}: an evaluation of an experiment whose triples are all evaluable by construction raised", log=[l[-300:] for l in bad[:2]])

def baseline(desc, fresh=True):
    """snapshot of an in-process run of a fresh build, checked against a second fresh in-process run and against the same
    run in a pristine process (a worker is just a process with another evaluation history)"""
    o1 = G.run_built(G.build(desc))
    if o1.error is not None: raise o1.error
    no_failures(o1.log, "in-process run")
    s1 = G.snapshot(o1.result)
    o2 = G.run_built(G.build(desc))
    if o2.error is not None: raise o2.error
    d = G.diff_snapshots(s1, G.snapshot(o2.result))
    require(d is None, "a second fresh in-process run differs from the first: " + str(d))
    if fresh:
        f = G.run_fresh(desc)
        require(f["error"] is None, "in-process run in a pristine process raised: " + str(f["error"]))
        no_failures(f["log"], "in-process run in a pristine process")
        d = G.diff_snapshots(s1, f["snapshot"])
        require(d is None, "the in-process run depends on what the process evaluated before (differs from the same run in a pristine process): " + str(d))
    return s1

def check_config(desc, s0, mode, p, c, t, sched=()):
    o = G.run_built(G.build(desc), mode, p, c, t, sched)
    if o.error is not None: raise o.error
    no_failures(o.log, f"{mode} run(processes={p}, maxchunksperchild={c}, maxtasksperchunk={t})")
    d = G.diff_snapshots(s0, G.snapshot(o.result))
    require(d is None, f"{mode} run(processes={p}, maxchunksperchild={c}, maxtasksperchunk={t}) differs from the in-process run: {d}",
            schedule=list(sched)[:20])

def run_real(case):
    s0 = baseline(case["desc"])
    check_config(case["desc"], s0, "real", case["p"], case["c"], case["t"])

def run_sim(case):
    s0 = baseline(case["desc"])
    check_config(case["desc"], s0, "sim", case["p"], case["c"], case["t"], case["sched"])

def permutation(n, swaps):
    idx = list(range(n))
    if swaps:
        for i in range(n - 1, 0, -1):
            j = swaps[i % len(swaps)] % (i + 1)
            idx[i], idx[j] = idx[j], idx[i]
    return idx

def run_perm(case):
    o = G.run_built(G.build(case["desc"]), "inproc", maxtasksperchunk=case.get("t", 0), to_file=True)
    if o.error is not None: raise o.error
    no_failures(o.log, "in-process run")
    s0 = G.snapshot(o.result)
    lines = [l for l in o.lines if l.strip()]
    require(len(lines) >= 2 and lines[0].replace(" ", "") == '["version",4]', "log does not start with the version line", head=lines[:2])
    body = lines[1:]
    order = permutation(len(body), case["swaps"])
    permuted = [lines[0]] + [body[i] for i in order]
    with G.isolated():
        r = Result.from_source(ListSource(permuted))
    d = G.diff_snapshots(s0, G.snapshot(r))
    require(d is None, "decoding the same transaction lines in another arrival order changes the Result: " + str(d), order=order[:30])

# ----------------------------------------------------------------------------------------------- strategies
def _desc(tier, **kw):
    big = tier == "thorough"
    return G.experiments(max_groups=3, max_n=30 if big else 20, max_triples=12, p_corral_refs=0.2, **kw)

@st.composite
def real_cases(draw, tier):
    desc = draw(_desc(tier))
    p = draw(st.sampled_from([1, 2, 2, 3, 3, 4]))
    c = draw(st.integers(0, 3))
    if p == 1 and c == 0:
        p, c = (2, 0) if draw(st.booleans()) else (1, 1)
    return {"desc": desc, "p": p, "c": c, "t": draw(st.sampled_from([0, 0, 1, 2, 3, 5]))}

@st.composite
def sim_cases(draw, tier):
    desc = draw(_desc(tier))
    p = draw(st.sampled_from([1, 2, 2, 3, 3, 4]))
    c = draw(st.integers(0, 3))
    if p == 1 and c == 0 and draw(st.integers(0, 9)) > 0:
        p, c = (draw(st.integers(2, 4)), 0) if draw(st.booleans()) else (1, draw(st.integers(1, 3)))
    sched = draw(st.lists(st.integers(0, 3), max_size=24))
    return {"desc": desc, "p": p, "c": c, "t": draw(st.sampled_from([0, 0, 1, 2, 3, 5])), "sched": sched}

@st.composite
def perm_cases(draw, tier):
    desc = draw(_desc(tier))
    return {"desc": desc, "t": draw(st.sampled_from([0, 0, 0, 1, 2])), "swaps": draw(st.lists(st.integers(0, 40), min_size=1, max_size=40))}

# ----------------------------------------------------------------------------------------------- evidence
def n_triples(case):
    return len(G.static_triples(case["desc"]))

def nontrivial_cfg(case):
    return n_triples(case) >= 2 and (case["p"] > 1 or case["c"] > 0)

def nontrivial_perm(case):
    if n_triples(case) < 2 or not case["swaps"]: return False
    # lines = version + experiment + one per env/lrn/val + one per triple; the exact count needs a run, a lower bound suffices
    n = 1 + n_triples(case)
    return permutation(n, case["swaps"]) != list(range(n))

def classes(case):
    desc = case["desc"]
    out = G.desc_classes(desc)
    if G.shared_learners(desc): out.append("shared-learner-object")
    if G.has_ref_corral(desc): out.append("corral-over-listed-learner")
    k = n_triples(case)
    out.append("triples=" + ("1" if k == 1 else "2-4" if k <= 4 else "5-8" if k <= 8 else "9-12"))
    if "p" in case:
        out.append(f"processes={case['p']}")
        out.append("maxchunksperchild=" + ("0" if case["c"] == 0 else ">0"))
    out.append("maxtasksperchunk=" + ("0" if case.get("t", 0) == 0 else ">0"))
    return out

def view(case):
    return case

def classify(case, exc):
    """The one listed finding: in-process runs evaluate a learner that occurs in a single triple *in place*, so a second
    listed learner that holds a reference to it (CorralLearner over listed learners) starts from the trained object; spawned
    or simulated workers evaluate pickled copies. Only that input pattern and only an interaction-row difference is matched."""
    if not isinstance(exc, Violation): return None
    if not G.has_ref_corral(case["desc"]): return None
    msg = str(exc)
    # any difference confined to the interactions table (values, and - since a leaked learner has made more updates - also a
    # late learning_info column or the rows of a finish()ed learner) of such an experiment
    if "differs from the in-process run: interactions:" in msg:
        return FID_INPLACE
    return None

SUBCHECKS = [
    Sub(name="real", run=run_real, strategy=real_cases, nontrivial=nontrivial_cfg, classes=classes, classify=classify,
        quick=24, thorough=500, quick_shards=4, thorough_shards=6, quick_budget_s=38, thorough_budget_s=780, sample_view=view,
        what="Experiment.run with really spawned workers (processes 1-4, maxchunksperchild 0-3, maxtasksperchunk 0-5) vs in-process run of a fresh twin; second fresh in-process run equals the first"),
    Sub(name="sim", run=run_sim, strategy=sim_cases, nontrivial=nontrivial_cfg, classes=classes, classify=classify,
        quick=450, thorough=12000, quick_shards=3, thorough_shards=6, quick_budget_s=38, thorough_budget_s=780, sample_view=view,
        what="same call with Multiprocessor replaced by simulated workers whose schedule (chunk->worker assignment, arrival order, retirement) is generated; vs in-process run of a fresh twin"),
    Sub(name="perm", run=run_perm, strategy=perm_cases, nontrivial=nontrivial_perm, classes=classes,
        quick=450, thorough=12000, quick_shards=1, thorough_shards=4, quick_budget_s=38, thorough_budget_s=780, sample_view=view,
        what="transaction lines of an in-process run permuted (version line first) and decoded: the Result must not change"),
]
