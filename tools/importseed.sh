#!/bin/bash
# tools/importseed.sh <src dir> <PROP> <n> : validate a seeded change (demo, tests, check) and store it under seeded/<PROP>/<n>/
set -u
SRC="$1"; PROP="$2"; N="$3"; shift 3
DST="/verif/seeded/$PROP/$N"; mkdir -p "$DST"
cp "$SRC/patch.diff" "$SRC/demo.py" "$DST/"
OUT="$(/verif/tools/seedcheck.sh "$SRC" "$PROP" "$@" 2>&1)"
echo "$OUT"
ALSO_OUT=""
if [ -n "${ALSO:-}" ]; then
  # the change is also run against the check of a neighbouring property (ALSO=<ID>)
  ALSO_OUT="$(SKIP_TESTS=1 /verif/tools/seedcheck.sh "$SRC" "$ALSO" "$@" 2>&1)"
  echo "--- also against $ALSO"; echo "$ALSO_OUT"
fi
/venv/bin/python - "$SRC/meta.json" "$DST/meta.json" "$PROP" "$OUT" "${ALSO:-}" "$ALSO_OUT" <<'PY'
import json,sys,re
src,dst,prop,out,also,also_out=sys.argv[1:7]
m=json.load(open(src))
demo=re.search(r"demo: pristine rc=(\d+) changed rc=(\d+)",out)
rc=re.search(r"check rc=(\d+)",out)
newfails=[l.strip() for l in out.split("tests: failing with change (baseline failures excluded):")[-1].splitlines() if l.startswith("   ")] if "tests: failing" in out else None
viol=[l for l in out.splitlines() if l.startswith("[")][:2]
json.dump({"property":prop,"summary":m.get("summary"),"needs":m.get("needs"),"files":m.get("files"),
 "author_tests_run":m.get("tests_run"),
 "verified":{"how":"tools/seedcheck.sh in a throw-away clone of /repo: demo.py on the pristine and on the changed tree, coba's own test suite on the changed tree, then ./check %s --tier quick with VERIF_REPO pointing at the changed tree"%prop,
   "demo_rc_pristine":int(demo.group(1)) if demo else None,"demo_rc_changed":int(demo.group(2)) if demo else None,
   "new_test_failures_vs_baseline":newfails,"check_rc":int(rc.group(1)) if rc else None,"check_output":viol,
   **({"also_caught_by": also + " (" + "; ".join(l[:160] for l in also_out.splitlines() if l.startswith("["))[:400] + ")"} if also and re.search(r"check rc=1", also_out) else ({"also_run_against": also + ": not caught"} if also else {}))}},open(dst,"w"),indent=1)
PY
