#!/opt/veriftools/pyvenv/bin/python
"""Validate MANIFEST.json and every evidence file against the schemas in /root/.vp (needs jsonschema: run with python3-vt)."""
import json, sys, os, glob, jsonschema
H = os.path.dirname(os.path.dirname(os.path.abspath(__file__)))
ok = True
m = json.load(open(f"{H}/MANIFEST.json"))
jsonschema.validate(m, json.load(open("/root/.vp/MANIFEST.schema.json")))
props = [json.loads(l)["id"] for l in open(f"{H}/properties.jsonl")]
claimed = [c["property_id"] for c in m["checks"]]; na = [n["property_id"] for n in m.get("not_applicable", [])]
assert sorted(claimed + na) == sorted(props), (claimed, na)
es = json.load(open("/root/.vp/EVIDENCE.schema.json"))
for c in m["checks"]:
    p = f"{H}/{c['evidence_file']}"
    if not os.path.exists(p):
        print("MISSING evidence", p); ok = False; continue
    e = json.load(open(p))
    try:
        jsonschema.validate(e, es)
        assert e["level"] == c["level_claimed"]["category"], "level mismatch"
        print(f"{c['property_id']}: ok tier={e['tier']} evals={e['coverage']['evaluations']} nontrivial={e['coverage']['distinct_nontrivial']} wall={e['wall_s']}s violations={e.get('violations')}")
    except Exception as ex:
        print("INVALID", p, str(ex)[:300]); ok = False
sys.exit(0 if ok else 1)
