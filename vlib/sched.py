"""Deterministic cooperative scheduler over real threads.

Participants are real (daemon) threads, but exactly one runs at a time: each is parked on its own semaphore and
hands control back to the scheduler at every *yield point* (inserted by instrumented doubles of locks, shared
arrays, queues, events, sleep ...). The schedule is a list of integers: at each step the next participant is
`runnable[choice % len(runnable)]` (or, in 'preempt' mode, the current one unless a preemption is scheduled).
Because every blocking primitive belongs to the scheduler, "unfinished participants but none runnable" is a real
deadlock of the modelled system, not a timeout.
"""
import threading

class SchedAbort(BaseException):
    """Raised inside participants to unwind them when the scheduler gives up on a run."""

class Part:
    __slots__ = ("name", "fn", "go", "pred", "done", "exc", "thread", "steps", "blocked_on", "daemon")
    def __init__(self, name, fn, daemon=False):
        self.name, self.fn = name, fn
        self.go = threading.Semaphore(0)
        self.pred = None
        self.done = False
        self.exc = None
        self.thread = None
        self.steps = 0
        self.blocked_on = None
        self.daemon = daemon   # a daemon participant need not finish for the run to be complete

class Sched:
    OK, DEADLOCK, STEPS = "ok", "deadlock", "step-bound"

    def __init__(self, choices=(), max_steps=20000, preemptions=None, default_choice=0):
        self.choices = list(choices)
        self.default_choice = default_choice   # what to pick once the drawn choices are used up (0 = first runnable)
        self.ci = 0
        self.parts = []
        self.by_ident = {}
        self.back = threading.Semaphore(0)
        self.aborted = False
        self.max_steps = max_steps
        self.steps = 0
        self.trace = []          # names in execution order (compressed)
        self.preemptions = dict(preemptions) if preemptions is not None else None  # step -> index, 'preempt' mode
        self.current = None
        self.version = 0         # bumped by doubles whenever shared state changes (livelock rule)
        self.result = None
        self.blocked = []
        self.blocked_stacks = {}
        self.started = False

    # ------------------------------------------------------------------ participant side
    def spawn(self, name, fn, daemon=False):
        p = Part(name, fn, daemon)
        def body():
            p.go.acquire()
            try:
                if not self.aborted:
                    fn()
            except SchedAbort:
                pass
            except BaseException as e:  # recorded, reported by the property
                p.exc = e
            finally:
                p.done = True
                self.back.release()
        p.thread = threading.Thread(target=body, name=f"sched-{name}", daemon=True)
        self.parts.append(p)
        p.thread.start()
        self.by_ident[p.thread.ident] = p
        return p

    def me(self):
        return self.by_ident.get(threading.get_ident())

    def managed(self):
        return threading.get_ident() in self.by_ident

    def yield_(self, pred=None, on=None):
        """Hand control back. With pred: do not resume me before pred() is true."""
        p = self.by_ident.get(threading.get_ident())
        if p is None:
            return  # called from an unmanaged thread (e.g. set-up code): no scheduling
        if self.aborted:
            raise SchedAbort()
        p.pred = pred
        p.blocked_on = on
        self.back.release()
        p.go.acquire()
        p.pred = None
        p.blocked_on = None
        if self.aborted:
            raise SchedAbort()

    def wait_until(self, pred, on=None):
        if self.by_ident.get(threading.get_ident()) is None:
            if not pred():
                raise RuntimeError("unmanaged thread would block on " + str(on))
            return
        self.yield_()
        while not pred():
            self.yield_(pred, on)

    def touch(self):
        self.version += 1

    # ------------------------------------------------------------------ scheduler side
    def _pick(self, runnable):
        if self.preemptions is not None:
            want = self.preemptions.get(self.steps)
            if want is not None:
                others = [p for p in runnable if p is not self.current] or runnable
                return others[want % len(others)]
            if self.current in runnable:
                return self.current
            return runnable[0]
        if self.ci < len(self.choices):
            c = self.choices[self.ci]; self.ci += 1
        else:
            c = self.default_choice
        return runnable[c % len(runnable)]

    def run(self):
        self.started = True
        while True:
            live = [p for p in self.parts if not p.done]
            if not [p for p in live if not p.daemon]:
                self.result = self.OK
                break
            runnable = []
            for p in live:
                if p.pred is None:
                    runnable.append(p)
                else:
                    try:
                        ok = p.pred()
                    except Exception:
                        ok = True
                    if ok:
                        runnable.append(p)
            if not runnable:
                self.result = self.DEADLOCK
                self.blocked = [(p.name, p.blocked_on) for p in live]
                self.blocked_stacks = self._stacks(live)
                break
            if self.steps >= self.max_steps:
                self.result = self.STEPS
                self.blocked = [(p.name, p.blocked_on) for p in live]
                break
            p = self._pick(runnable)
            self.current = p
            self.steps += 1
            p.steps += 1
            if not self.trace or self.trace[-1] != p.name:
                self.trace.append(p.name)
            p.go.release()
            self.back.acquire()
        self._abort_rest()
        return self.result

    def _stacks(self, parts):
        """Where each blocked participant is (innermost frames of the code under test), for the violation report."""
        import sys, traceback
        frames = sys._current_frames()
        out = {}
        for p in parts:
            f = frames.get(p.thread.ident)
            if f is not None:
                st = [f"{fs.filename.split('/')[-1]}:{fs.lineno} {fs.name}" for fs in traceback.extract_stack(f)
                      if "sched.py" not in fs.filename and "threading.py" not in fs.filename]
                out[p.name] = st[-6:]
        return out

    def _abort_rest(self):
        self.aborted = True
        for p in self.parts:
            if not p.done:
                p.go.release()
        for p in self.parts:
            if p.thread is not None:
                p.thread.join(timeout=5)

# ---------------------------------------------------------------------- generic doubles
class SimLock:
    """Cooperative mutual-exclusion lock (context manager + acquire/release)."""
    def __init__(self, sched, name="lock"):
        self.s, self.name = sched, name
        self.held_by = None
        self.acquisitions = 0
    def acquire(self, blocking=True, timeout=-1):
        self.s.wait_until(lambda: self.held_by is None, on=self.name)
        self.held_by = self.s.me() or "main"
        self.acquisitions += 1
        return True
    def release(self):
        self.held_by = None
        self.s.yield_()
    def __enter__(self):
        self.acquire(); return self
    def __exit__(self, *a):
        self.release(); return False
    def locked(self):
        return self.held_by is not None

class SimArray(list):
    """Shared counter array: a yield point before every element read/write; records touched indices."""
    def __init__(self, sched, n):
        super().__init__([0] * n)
        self.s = sched
        self.touched = set()
    def __getitem__(self, i):
        self.s.yield_()
        return list.__getitem__(self, i)
    def __setitem__(self, i, v):
        self.s.yield_()
        self.touched.add(i)
        list.__setitem__(self, i, v)
        self.s.touch()
    def peek(self, i):
        return list.__getitem__(self, i)
