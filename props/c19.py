"""C19 Shared caches never expose partial entries and always release their locks.

Sub-checks
  sched   generated programs of 2..4 concurrent callers over ConcurrentCacher with an OWNED schedule: the lock, the
          shared counter array, the inner cache and time.sleep are instrumented doubles whose every operation is a yield
          point of a deterministic cooperative scheduler (vlib/sched.py); the schedule is a Hypothesis-drawn int list.
          Oracle = invariant monitor inside the inner cache + quiescence conditions + sound deadlock detection.
  pb      the same system, small fixed programs, ALL schedules with a bounded number of preemptions (complete enumeration).
  torn    DiskCacher: every byte prefix of the file a write produces is left on disk (fault enumeration); a later get_set
          must raise or deliver a complete value; getters failing part-way leave no entry; also through ConcurrentCacher.
"""
import os, gzip, shutil, tempfile, itertools, threading
from collections import defaultdict
from hypothesis import strategies as st

from vlib.core import Sub
from vlib.util import Violation, Inconclusive, require, use_repo
from vlib.sched import Sched, SimLock, SimArray, SchedAbort
use_repo()
import coba.context.cachers as cachers_mod
from coba.context.cachers import ConcurrentCacher, DiskCacher, MemoryCacher, Cacher
from coba.exceptions import CobaException

ID = "C19"
LEVEL = "exploration"
RULE = ("sched: case = (topology threads|processes, 2-4 callers each with 1-3 get_set/rmv operations - getters and bodies that "
        "raise, nested get_set on the same or a non-colliding key - over equal, distinct and 16-bit-hash-colliding keys, "
        "pre-populated keys and zero-length left-over entries (which the inner cache - as DiskCacher - discards and repopulates; a reader sent to such an entry gets an exception as for any torn file), schedule = list of ints choosing the next runnable caller at every lock/array/inner-cache/sleep "
        "operation); non-trivial = two callers touch the same or a colliding key and at least one of them writes or removes, and "
        "the executed schedule switches callers at least 3 times. pb: all schedules with <= k preemptions of fixed two-caller "
        "programs. torn: (lines, every byte prefix of the written .gz); non-trivial = value with >= 1 line. distinct = distinct canonical JSON")
ASSUMPTIONS = [
    "the schedule is owned at the granularity of lock acquire/release, every read/write of a shared counter, every inner-cache operation (with yield points inside a write and a removal) and time.sleep; the OS scheduler, signals and workers dying without running their epilogue are not modelled",
    "a caller never nests get_set on two different keys whose 16-bit hashes collide, and never calls rmv inside a with-block (lock-order deadlocks of the caller's own making are outside the property)",
    "injected failures are Exception subclasses raised by the getter or inside the with-body; a BaseException (interrupt) while streaming is only injected into DiskCacher itself, not through ConcurrentCacher",
    "the inner cache double reports a key as present from the moment its write begins (as DiskCacher does) and removes a partially written entry when the getter fails (as DiskCacher does)",
    "an exception handed to a caller that reads a torn or zero-length cache file is an allowed outcome (the property forbids serving such an entry as complete, keeping a lock, or breaking mutual exclusion while it is discarded and repopulated); OpenmlSource reacts to it by clearing its cache keys and re-raising",
]

KEYS = ["k74", "k408", "k120", "k1"]   # k74/k408 collide in the 16-bit lock table of the pinned tree; k120 and k1 are distinct
def _idx(k):
    return cachers_mod.ConcurrentCacher(MemoryCacher())._index(k)
# Which slot a key gets is the implementation's business (only that every process agrees on it matters - the real-process
# sub-checks start their workers with per-process hash salts for that reason); if the tree under test maps k74/k408 to different
# slots the "colliding" cases are simply cases over distinct keys.

class Injected(Exception):
    pass

class Interrupt(BaseException):
    """Stands for KeyboardInterrupt/SystemExit arriving while a getter is streaming its value."""

# ------------------------------------------------------------------------------------------------ monitor + inner cache double
class TornEntry(TypeError):
    """What DiskCacher raises (a TypeError: None is not iterable) when it is sent to READ an entry (getter None) whose file
    turns out to be a zero-length left-over of a write cut at byte 0: it removes the file and has nothing to refill it with.
    As for any other torn file the caller gets an exception - never an incomplete value (see `torn`)."""

class Entry:
    __slots__ = ("parts", "complete", "key", "empty")
    def __init__(self, key, empty=False):
        self.key, self.parts, self.complete, self.empty = key, [], False, empty
    def __iter__(self):            # a caller that streams the value (OpenmlSource does `yield from out`): a yield point per part
        for part in list(self.parts):
            if _STREAM_SCHED[0] is not None:
                _STREAM_SCHED[0].yield_()
            yield part

_STREAM_SCHED = [None]   # the scheduler of the running `openml` case (reading a value takes time: others may run meanwhile)

class Monitor:
    def __init__(self):
        self.readers = defaultdict(int)
        self.writers = defaultdict(int)
        self.removers = defaultdict(int)
        self.getter_calls = 0
        self.heal_removed = set()   # keys whose zero-length left-over was discarded and that were not written since
        self.violations = []
        self.events = []
        self.mutex = threading.Lock()   # counters stay exact under real threads; no yield point is inside a critical section
    def inc(self, table, key, d):
        with self.mutex:
            table[key] += d
    def flag(self, msg):
        self.violations.append(msg)
    def log(self, who, what, key):
        self.events.append((who, what, key))

class ReadCtx:
    def __init__(self, mon, entry, who):
        self.mon, self.entry, self.who = mon, entry, who
        mon.inc(mon.readers, entry.key, 1)
        mon.log(who, "read-begin", entry.key)
    def __enter__(self):
        return self.entry
    def __exit__(self, *a):
        self.mon.inc(self.mon.readers, self.entry.key, -1)
        self.mon.log(self.who, "read-end", self.entry.key)
        return False

class MonitorCache(Cacher):
    """Inner cache double: dictionary store with yield points and an invariant monitor."""
    def __init__(self, sched, mon):
        self.s, self.mon, self.store = sched, mon, {}
    def _who(self):
        p = self.s.me(); return p.name if p else "main"
    def __contains__(self, key):
        self.s.yield_()
        return key in self.store
    def rmv(self, key):
        self.s.yield_()
        if key in self.store:
            m = self.mon
            if m.readers[key] or m.writers[key] or m.removers[key]:
                m.flag(f"{self._who()} removes {key!r} while it is being read/written/removed (readers={m.readers[key]}, writers={m.writers[key]}, removers={m.removers[key]})")
            m.inc(m.removers, key, 1)
            m.log(self._who(), "remove-begin", key)
            try:
                self.s.yield_()
                self.store[key].complete = False
                self.store[key].parts.clear()
                self.s.yield_()
                del self.store[key]
            finally:
                m.inc(m.removers, key, -1)
                m.log(self._who(), "remove-end", key)
    def get_set(self, key, getter):
        self.s.yield_()
        m = self.mon
        healed = False
        e0 = self.store.get(key)
        if e0 is not None and e0.empty:
            # DiskCacher: a zero-length file counts as absent - it is unlinked and the entry is populated anew
            self.s.yield_()
            if self.store.get(key) is e0:
                if m.readers[key] or m.writers[key] or m.removers[key]:
                    m.flag(f"{self._who()} removes the zero-length entry {key!r} while it is being read/written/removed")
                del self.store[key]
                m.heal_removed.add(key)
            healed = True
            self.s.yield_()
        if key in self.store:
            if m.writers[key] or m.removers[key]:
                m.flag(f"{self._who()} reads {key!r} while it is being written/removed")
            return ReadCtx(m, self.store[key], self._who())
        if getter is None and (healed or key in m.heal_removed):
            # (also a second reader that was sent here while the first one was discarding the zero-length file: DiskCacher finds
            # no file and has no getter)
            raise TornEntry("'NoneType' object is not iterable")
        if getter is None:
            m.flag(f"{self._who()} was sent to read {key!r} but the entry is not there (removed between the check and the read)")
            raise KeyError(key)
        if m.readers[key] or m.writers[key] or m.removers[key]:
            m.flag(f"{self._who()} writes {key!r} while it is being read/written/removed")
        m.inc(m.writers, key, 1)
        m.log(self._who(), "write-begin", key)
        entry = Entry(key)
        self.store[key] = entry
        m.heal_removed.discard(key)
        try:
            self.s.yield_()
            m.getter_calls += 1
            value = getter() if callable(getter) else getter
            for part in value:
                self.s.yield_()
                entry.parts.append(part)
            entry.complete = True
        except BaseException:
            if self.store.get(key) is entry:
                del self.store[key]
            raise
        finally:
            m.inc(m.writers, key, -1)
            m.log(self._who(), "write-end", key)
        return ReadCtx(m, entry, self._who())

class SleepShim:
    """Replacement for the `time` module inside coba.context.cachers: sleep() parks the caller until the shared
    counters changed after the caller last looked at them (otherwise retrying cannot succeed -> sound livelock rule)."""
    def __init__(self, sched, seen):
        self.s, self.seen = sched, seen
    def sleep(self, secs):
        me = self.s.me()
        if me is None:
            raise RuntimeError("unmanaged thread would sleep")
        v0 = self.seen.get(me.name, -1)
        self.s.yield_(pred=lambda: self.s.version != v0, on="retry-sleep")
    def time(self):
        return 0.0

class SeenArray(SimArray):
    def __init__(self, sched, n, seen):
        super().__init__(sched, n); self.seen = seen
    def __getitem__(self, i):
        v = super().__getitem__(i)
        me = self.s.me()
        if me is not None: self.seen[me.name] = self.s.version
        return v

# ------------------------------------------------------------------------------------------------ running a program
def value_for(key, gen):
    return [key, gen, "end"]

def check_entry(mon, entry, key, who):
    ok = entry.complete and len(entry.parts) == 3 and entry.parts[0] == key and entry.parts[2] == "end"
    if not ok:
        mon.flag(f"{who} received an incomplete value for {key!r}: parts={entry.parts!r} complete={entry.complete}")

def do_op(sched, mon, cacher, op, who):
    key = op["key"]
    if op["op"] == "rmv":
        cacher.rmv(key)
        return
    gk = op.get("getter", "ok")
    def getter():
        if gk == "raise_before":
            raise Injected("getter")
        gen = mon.getter_calls
        def it():
            yield key
            if gk == "raise_mid":
                raise Injected("getter-mid")
            yield gen
            yield "end"
        return it()
    g = value_for(key, -1) if gk == "value" else getter
    try:
        with cacher.get_set(key, g) as entry:
            check_entry(mon, entry, key, who)
            nested = op.get("nested")
            if nested:
                do_op(sched, mon, cacher, nested, who)
            for _ in range(op.get("body_yields", 1)):
                sched.yield_()
                check_entry(mon, entry, key, who)
            if op.get("body") == "raise":
                raise Injected("body")
    except (Injected, TornEntry):
        pass

def run_program(case, sched):
    mon = Monitor()
    seen = {}
    inner = MonitorCache(sched, mon)
    for k in case.get("pre", []):
        e = Entry(k); e.parts = value_for(k, -2); e.complete = True
        inner.store[k] = e
    for k in case.get("pre_empty", []):     # zero-length left-overs of writes cut at byte 0
        inner.store[k] = Entry(k, empty=True)
    array = SeenArray(sched, 2 ** 16, seen)
    lock = SimLock(sched, "table-lock")
    shared = ConcurrentCacher(inner, array, lock) if case.get("topology", "threads") == "threads" else None
    cachers = []
    old_time = cachers_mod.time
    cachers_mod.time = SleepShim(sched, seen)
    try:
        for i, ops in enumerate(case["parts"]):
            c = shared if shared is not None else ConcurrentCacher(inner, array, lock)
            cachers.append(c)
            name = f"T{i}"
            def body(c=c, ops=ops, name=name):
                for op in ops:
                    do_op(sched, mon, c, op, name)
            sched.spawn(name, body)
        result = sched.run()
    finally:
        cachers_mod.time = old_time
    return result, mon, array, lock, cachers

def colliding(a, b):
    return a != b and _idx(a) == _idx(b)

def verdict(case, sched, result, mon, array, lock, cachers):
    info = dict(parts=case["parts"], pre=case.get("pre", []), pre_empty=case.get("pre_empty", []), topology=case.get("topology", "threads"), trace=sched.trace[:60])
    if mon.violations:
        raise Violation("monitor: " + mon.violations[0] + f" | case={info}")
    if result == Sched.STEPS:
        raise Inconclusive("step bound of the harness reached")
    for p in sched.parts:
        if p.exc is not None and not isinstance(p.exc, SchedAbort):
            raise Violation(f"caller {p.name} failed with {type(p.exc).__name__}: {p.exc} | case={info}") from p.exc
    if result == Sched.DEADLOCK:
        e = Violation(f"callers wait forever (no runnable caller): blocked={sched.blocked} | case={info} | where={sched.blocked_stacks}")
        e.blocked_in = {name: [fr.split(" ")[-1] for fr in st] for name, st in sched.blocked_stacks.items()}
        raise e
    held = {i: array.peek(i) for i in array.touched if array.peek(i) != 0}
    require(not held, "lock table not all zero after every caller left", held=held, case=info)
    require(not lock.locked(), "table lock still held at quiescence", case=info)
    for c in cachers:
        bad = {k: v for k, v in c._locks.items() if v != 0}
        require(not bad, "a caller still believes it holds a lock", locks=bad, case=info)
    require(not any(mon.readers.values()) and not any(mon.writers.values()) and not any(mon.removers.values()),
            "monitor: readers/writers left at quiescence", case=info)

def run_sched(case):
    s = Sched(choices=case.get("choices", ()), max_steps=6000, default_choice=case.get("tail", 0))
    result, mon, array, lock, cachers = run_program(case, s)
    case["_switches"] = len(s.trace)
    verdict(case, s, result, mon, array, lock, cachers)

def run_pb(case):
    s = Sched(max_steps=6000, preemptions={a: b for a, b in case["preemptions"]})
    result, mon, array, lock, cachers = run_program(case, s)
    verdict(case, s, result, mon, array, lock, cachers)

# ------------------------------------------------------------------------------------------------ generators
@st.composite
def op_strategy(draw, allow_nested=True):
    if draw(st.integers(0, 4)) == 0:
        return {"op": "rmv", "key": draw(st.sampled_from(KEYS[:3]))}
    key = draw(st.sampled_from(KEYS[:3] if draw(st.integers(0, 5)) else KEYS))
    op = {"op": "get_set", "key": key,
          "getter": draw(st.sampled_from(["ok", "ok", "ok", "raise_before", "raise_mid", "value"])),
          "body": draw(st.sampled_from(["ok", "ok", "raise"])),
          "body_yields": draw(st.integers(0, 2))}
    if allow_nested and draw(st.integers(0, 4)) == 0:
        k2 = draw(st.sampled_from(KEYS))
        if not colliding(key, k2):
            op["nested"] = {"op": "get_set", "key": k2, "getter": draw(st.sampled_from(["ok", "raise_before", "raise_mid"])),
                            "body": draw(st.sampled_from(["ok", "raise"])), "body_yields": draw(st.integers(0, 1))}
    return op

@st.composite
def sched_cases(draw, tier):
    n = draw(st.sampled_from([2, 2, 3, 3, 4]))
    maxops = 3 if tier == "quick" else 4
    parts = [draw(st.lists(op_strategy(), min_size=1, max_size=maxops)) for _ in range(n)]
    pre = draw(st.lists(st.sampled_from(KEYS[:3]), unique=True, max_size=2))
    pre_empty = [k for k in draw(st.lists(st.sampled_from(KEYS[:3]), unique=True, max_size=2)) if k not in pre] if draw(st.integers(0, 3)) == 0 else []
    return {"topology": draw(st.sampled_from(["threads", "procs"])), "parts": parts,
            "pre": pre, "pre_empty": pre_empty,
            "choices": draw(st.lists(st.integers(0, 3), max_size=160 if tier == "quick" else 300)),
            "tail": draw(st.sampled_from([0, 0, 1, 2, 3]))}   # who runs once the drawn choices are used up

def _keys_of(op):
    ks = [(op["key"], op["op"] == "rmv" or op["op"] == "get_set")]
    if op.get("nested"): ks.append((op["nested"]["key"], True))
    return ks

def contended(case):
    per = []
    for ops in case["parts"]:
        per.append({k for op in ops for k, _ in _keys_of(op)})
    for a, b in itertools.combinations(range(len(per)), 2):
        for ka in per[a]:
            for kb in per[b]:
                if ka == kb or colliding(ka, kb):
                    return True
    return False

def cross_caller_collision_with_nesting(case):
    """a caller nests get_set(a) > get_set(b) and ANOTHER caller uses a key whose lock-table index collides with a or b"""
    used = [{k for op in ops for k, _ in _keys_of(op)} for ops in case["parts"]]
    for i, ops in enumerate(case["parts"]):
        for op in ops:
            if op.get("nested"):
                mine = (op["key"], op["nested"]["key"])
                for j, ks in enumerate(used):
                    if j != i and any(colliding(m, k) for m in mine for k in ks):
                        return True
    return False

def classify_sched(case, exc):
    """Known finding: lock-order deadlock through the hash-indexed lock table when nested get_set calls of one caller meet a
    colliding key of another caller (every blocked caller sits in the write-lock retry loop). Nothing else is excused."""
    if isinstance(exc, Violation) and str(exc).startswith("callers wait forever") and cross_caller_collision_with_nesting(case):
        where = getattr(exc, "blocked_in", None)
        # the listed deadlock is a cycle of WRITE-lock acquisitions inside get_set; a caller stuck acquiring a read lock,
        # or inside rmv, is something else and is reported
        if where and all("_acquire_write_lock" in fns and "get_set" in fns and "_acquire_read_lock" not in fns and "rmv" not in fns
                         for fns in where.values()):
            return "C19-nested-get_set-deadlock-on-colliding-index"
    return None

def nontrivial_sched(case):
    return contended(case) and case.get("_switches", 0) >= 4

def key_sched(case):
    return {k: v for k, v in case.items() if not k.startswith("_")}

def classes_sched(case):
    out = [f"callers={len(case['parts'])}", case["topology"]]
    ops = [op for ops in case["parts"] for op in ops]
    if any(op["op"] == "rmv" for op in ops): out.append("has-rmv")
    if case.get("pre_empty"): out.append("zero-length-leftover-entry")
    if any(op.get("getter", "").startswith("raise") for op in ops): out.append("getter-raises")
    if any(op.get("body") == "raise" for op in ops): out.append("body-raises")
    if any(op.get("nested") for op in ops): out.append("nested")
    keys = {op["key"] for op in ops}
    if {"k74", "k408"} <= keys and _idx("k74") == _idx("k408"): out.append("colliding-keys")
    if contended(case): out.append("contended")
    if cross_caller_collision_with_nesting(case): out.append("nesting-meets-foreign-colliding-key")
    sw = case.get("_switches", 0)
    out.append("switches>=10" if sw >= 10 else "switches<10")
    return out

# pb: complete enumeration of schedules with <= k preemptions for small fixed programs
ALPHABET = [
    {"op": "get_set", "key": "k74", "getter": "ok", "body": "ok", "body_yields": 1},
    {"op": "get_set", "key": "k74", "getter": "raise_mid", "body": "ok", "body_yields": 0},
    {"op": "get_set", "key": "k74", "getter": "ok", "body": "raise", "body_yields": 1},
    {"op": "rmv", "key": "k74"},
    {"op": "get_set", "key": "k408", "getter": "ok", "body": "ok", "body_yields": 0},
    {"op": "get_set", "key": "k74", "getter": "ok", "body": "ok", "body_yields": 0,
     "nested": {"op": "get_set", "key": "k74", "getter": "ok", "body": "ok", "body_yields": 0}},
    {"op": "get_set", "key": "k74", "getter": "ok", "body": "ok", "body_yields": 0,
     "nested": {"op": "get_set", "key": "k120", "getter": "ok", "body": "ok", "body_yields": 0}},
]

def pb_programs(tier):
    singles = [[a] for a in ALPHABET]
    doubles = [[a, b] for a in ALPHABET for b in ALPHABET]
    progs = []
    for p1, p2 in itertools.combinations_with_replacement(range(len(singles)), 2):
        for pre in ([], ["k74"]):
            progs.append(({"topology": "procs", "parts": [singles[p1], singles[p2]], "pre": pre}, 2))
        if p1 < 5 and p2 < 5:   # the key starts as a zero-length left-over
            progs.append(({"topology": "procs", "parts": [singles[p1], singles[p2]], "pre": [], "pre_empty": ["k74"]}, 2))
    if tier == "thorough":
        seqs = singles + doubles
        for i1, i2 in itertools.combinations_with_replacement(range(len(seqs)), 2):
            if len(seqs[i1]) == 1 and len(seqs[i2]) == 1: continue
            progs.append(({"topology": "threads", "parts": [seqs[i1], seqs[i2]], "pre": []}, 1))
        for trio in itertools.combinations_with_replacement(range(len(singles)), 3):
            progs.append(({"topology": "procs", "parts": [singles[i] for i in trio], "pre": []}, 1))
    return progs

def pb_enumerate(tier):
    for prog, bound in pb_programs(tier):
        s = Sched(max_steps=6000, preemptions={})
        run_program(dict(prog), s)
        L = s.steps + 2
        n_other = len(prog["parts"]) - 1
        yield dict(prog, preemptions=[])
        for s1 in range(L):
            for i1 in range(n_other):
                yield dict(prog, preemptions=[[s1, i1]])
        if bound >= 2 and tier == "thorough":
            for s1 in range(L):
                for s2 in range(s1 + 1, L):
                    yield dict(prog, preemptions=[[s1, 0], [s2, 0]])

# ------------------------------------------------------------------------------------------------ torn disk writes
def run_torn(case):
    lines = list(case["lines"])
    other = ["other-" + str(i) for i in range(case.get("n_other", 2))]
    tmp = tempfile.mkdtemp(prefix="verif-c19-")
    try:
        dc = DiskCacher(tmp)
        key = "entry 1.v_2"
        with dc.get_set(key, lambda: iter(lines)) as f:
            got = [l.rstrip("\n") for l in f]
        expect = [l.rstrip("\r\n") for l in lines]
        require(got == expect, "fresh DiskCacher entry differs from what the getter produced", got=got, want=expect)
        path = str(dc._cache_path(key))
        with open(path, "rb") as fh:
            full = fh.read()
        cuts = range(len(full)) if case.get("cut") is None else [case["cut"] % max(1, len(full))]
        for via in case.get("via", ["disk", "concurrent"]):
            for k in cuts:
                with open(path, "wb") as fh:
                    fh.write(full[:k])
                calls = []
                def getter2():
                    calls.append(1); return iter(other)
                cc = ConcurrentCacher(dc) if via == "concurrent" else dc
                served = None
                try:
                    with cc.get_set(key, getter2) as f:
                        served = [l.rstrip("\n") for l in f]
                except Exception:
                    served = None
                if served is not None:
                    ok = served == expect or (calls and served == other)
                    require(ok, "a torn cache file was served as if it were complete", cut=k, of=len(full), via=via,
                            served=served, original=expect, lines=lines)
                if via == "concurrent":
                    require(cc._array[cc._index(key)] == 0 and not any(v != 0 for v in cc._locks.values()),
                            "ConcurrentCacher keeps a lock after a torn read", cut=k, via=via)
                if os.path.exists(path): os.unlink(path)
        # a getter that fails part-way leaves no entry
        j = case.get("fail_after", 0) % (len(lines) + 1)
        def failing():
            for i, l in enumerate(lines):
                if i == j: raise Injected("getter")
                yield l
            raise Injected("getter")
        # ... also when the failure is not an Exception subclass (an interrupt while the value is streamed to disk);
        # asserted for DiskCacher itself, whose handler is written to cover it
        def interrupted():
            for i, l in enumerate(lines):
                if i == j: raise Interrupt()
                yield l
            raise Interrupt()
        try:
            with dc.get_set(key, interrupted) as f:
                list(f)
            raise Violation("an interrupted getter did not propagate")
        except Interrupt:
            pass
        require(key not in dc, "a getter interrupted part-way left an entry behind", fail_after=j, lines=lines)
        with dc.get_set(key, lambda: iter(other)) as f:
            served = [l.rstrip("\n") for l in f]
        require(served == other, "value served after an interrupted getter is not the complete new value", served=served, lines=lines, fail_after=j)
        dc.rmv(key)
        for cc in (dc, ConcurrentCacher(dc)):
            try:
                with cc.get_set(key, failing) as f:
                    list(f)
                raise Violation("a failing getter did not propagate its exception")
            except Injected:
                pass
            require(key not in cc, "a getter that failed part-way left an entry behind", fail_after=j, lines=lines)
            with cc.get_set(key, lambda: iter(other)) as f:
                served = [l.rstrip("\n") for l in f]
            require(served == other, "value served after a failed getter is not the complete new value", served=served)
            cc.rmv(key)
            require(key not in cc, "rmv left the entry")
            if isinstance(cc, ConcurrentCacher):
                require(cc._array[cc._index(key)] == 0 and not any(v != 0 for v in cc._locks.values()),
                        "ConcurrentCacher keeps a lock after a failed getter")
    finally:
        shutil.rmtree(tmp, ignore_errors=True)

LINE = st.one_of(st.text(alphabet=st.sampled_from(list("ab, {}'\"\\%?é漢\t ")), max_size=12), st.just("x" * 40))

@st.composite
def torn_cases(draw, tier):
    return {"lines": draw(st.lists(LINE, max_size=5 if tier == "quick" else 12)), "cut": None,
            "n_other": draw(st.integers(0, 3)), "fail_after": draw(st.integers(0, 12))}

# ------------------------------------------------------------------------------------------------ MemoryCacher: failing getters
def run_memory(case):
    """MemoryCacher (alone and behind ConcurrentCacher) over a history of get_set / rmv calls on one key with getters that are
    values, lists, generators, and generators that raise part-way: a getter that fails leaves no entry; a later caller runs its
    own getter and receives its complete value; an entry that stays cached is not computed again."""
    mc = MemoryCacher()
    c = ConcurrentCacher(mc) if case["via"] == "concurrent" else mc
    key = "k"
    model = None          # the cached value, or None
    for i, op in enumerate(case["ops"]):
        if op["op"] == "rmv":
            c.rmv(key); model = None
            require(key not in c, "key still present after rmv", step=i, case=case)
            continue
        want = [f"v{i}-{j}" for j in range(op["n"])]
        calls = []
        def gen():
            calls.append(1)
            for j, v in enumerate(want):
                if op["kind"] == "gen_fail" and j == op["fail_at"] % (len(want) + 1): raise Injected("getter")
                yield v
            if op["kind"] == "gen_fail": raise Injected("getter")
        getter = {"list": (lambda: (calls.append(1), list(want))[1]), "gen": gen, "gen_fail": gen, "value": list(want)}[op["kind"]]
        try:
            with c.get_set(key, getter) as out:
                got = list(out)
        except Injected:
            require(op["kind"] == "gen_fail" and model is None, "get_set raised the getter's error although the entry was cached or the getter was fine", step=i, case=case)
            require(key not in c, "a getter that failed part-way left an entry behind", step=i, case=case)
            if case["via"] == "concurrent":
                require(set(c._array) == {0} and not any(c._locks.values()), "a lock is still held after the getter failed", step=i, case=case)
            continue
        if model is not None:
            require(got == model, "a cached entry was not served as it was stored", step=i, got=got, want=model, case=case)
            require(not calls, "the getter ran although the entry was cached", step=i, case=case)
        else:
            require(op["kind"] != "gen_fail", "a getter that raises part-way did not raise", step=i, got=got, case=case)
            require(got == want, "the value returned by get_set is not what the getter produced (an incomplete or stale entry was served)", step=i, got=got, want=want, case=case)
            model = want
        if case["via"] == "concurrent":
            require(set(c._array) == {0} and not any(c._locks.values()), "a lock is still held after the with-block", step=i, case=case)

@st.composite
def memory_cases(draw, tier):
    ops = []
    for _ in range(draw(st.integers(1, 6))):
        if draw(st.integers(0, 4)) == 0:
            ops.append({"op": "rmv"})
        else:
            ops.append({"op": "get_set", "kind": draw(st.sampled_from(["list", "gen", "gen_fail", "gen_fail", "value"])), "n": draw(st.integers(0, 4)), "fail_at": draw(st.integers(0, 4))})
    return {"via": draw(st.sampled_from(["memory", "concurrent"])), "ops": ops}

def nontrivial_memory(case):
    kinds = [op.get("kind") for op in case["ops"]]
    return "gen_fail" in kinds and len(case["ops"]) >= 2

# ------------------------------------------------------------------------------------------------ OpenmlSource over a torn cache file
OPENML_DATA = {"data_set_description": {"id": "7", "name": "demo", "file_id": "77", "default_target_attribute": "y", "status": "active"}}
OPENML_FEAT = {"data_features": {"feature": [
    {"index": "0", "name": "a", "data_type": "numeric", "is_target": "false", "is_ignore": "false", "is_row_identifier": "false"},
    {"index": "1", "name": "y", "data_type": "nominal", "is_target": "true", "is_ignore": "false", "is_row_identifier": "false"}]}}

def run_openml_torn(case):
    """OpenmlSource(data_id).read() over ConcurrentCacher(DiskCacher) whose cached files were written by coba itself and one of
    which is then cut at a byte: the reader either receives exactly the complete rows, or the rows it was handed before an
    exception form a prefix of them - a torn entry is never served as, or mixed into, the complete data. A later read works."""
    import json as _json
    from coba.context import CobaContext, NullLogger
    from coba.environments.openml import OpenmlSource
    n_rows = case["rows"]
    arff = ["@relation demo", "@attribute a numeric", "@attribute y {0,1}", "@data"] + [f"{i},{i % 2}" for i in range(n_rows)]
    docs = {"data/7": [_json.dumps(OPENML_DATA)], "features/7": [_json.dumps(OPENML_FEAT)], "download/77": arff}
    requests = []
    def http(self, url, *a, **kw):
        requests.append(url)
        for k, v in docs.items():
            if url.endswith(k):
                yield from v
                return
        raise AssertionError("unexpected url " + url)
    tmp = tempfile.mkdtemp(prefix="verif-c19o-")
    old = (CobaContext.cacher, CobaContext.logger, OpenmlSource._http_request)
    try:
        CobaContext.cacher = ConcurrentCacher(DiskCacher(tmp))
        CobaContext.logger = NullLogger()
        OpenmlSource._http_request = http
        def rows_of(src):
            out = []
            try:
                for r in src.read():
                    out.append((list(r[0]) if not isinstance(r[0], dict) else dict(r[0]), r[1]) if isinstance(r, tuple) else list(r))
            except Exception as e:
                return out, e
            return out, None
        full, exc = rows_of(OpenmlSource(data_id=7))
        require(exc is None and len(full) == n_rows, "the first (uncached) read failed", exc=repr(exc), rows=len(full), case=case)
        key = OpenmlSource(data_id=7)._cache_keys[case["which"]]
        path = os.path.join(tmp, key + ".gz")
        require(os.path.exists(path), "cache file not where expected", path=path)
        data = open(path, "rb").read()
        cut = case["cut"] % len(data)
        with open(path, "wb") as fh:
            fh.write(data[:cut])
        got, exc = rows_of(OpenmlSource(data_id=7))
        info = dict(case, cut=cut, of=len(data))
        if exc is None:
            require(got == full, "a read over a torn cache file returned something else than the complete rows", got_rows=len(got), want_rows=len(full), case=info)
        else:
            require(got == full[:len(got)], "the rows handed out before the error are not a prefix of the complete rows", got_rows=len(got), exc=repr(exc)[:200], case=info)
        cc = CobaContext.cacher
        require(set(cc._array) == {0} and not any(cc._locks.values()), "a lock is still held after reading over a torn cache file", case=info)
        again, exc2 = rows_of(OpenmlSource(data_id=7))
        if exc is not None:   # the failed read cleared the source's keys: the next read downloads everything again and is complete
            require(exc2 is None and again == full, "the read after a failed read over a torn cache file is not complete", exc=repr(exc2)[:200], got_rows=len(again), case=info)
    finally:
        CobaContext.cacher, CobaContext.logger, OpenmlSource._http_request = old
        shutil.rmtree(tmp, ignore_errors=True)

@st.composite
def openml_torn_cases(draw, tier):
    return {"rows": draw(st.sampled_from([1, 3, 40, 400])), "which": draw(st.sampled_from(["arff", "arff", "arff", "data", "feat"])), "cut": draw(st.integers(0, 5000))}

# ------------------------------------------------------------------------------------------------ real threads (sampled OS schedules)
class NoSched:
    """Stand-in scheduler for real-thread runs: yield points only invite the OS to switch threads."""
    version = 0
    def me(self): return None
    def yield_(self, pred=None, on=None):
        import time as _t; _t.sleep(0)
    def touch(self): pass

class RealSleep:
    def sleep(self, secs):
        import time as _t; _t.sleep(0.0005)

def run_real_threads(case):
    import sys, time as _t
    mon = Monitor()
    ns = NoSched()
    inner = MonitorCache(ns, mon)
    inner._who = lambda: threading.current_thread().name
    for k in case.get("pre", []):
        e = Entry(k); e.parts = value_for(k, -2); e.complete = True
        inner.store[k] = e
    array = [0] * 2 ** 16
    lock = threading.Lock()
    shared = ConcurrentCacher(inner, array, lock) if case["topology"] == "threads" else None
    cachers, threads, errors = [], [], []
    old_time, old_si = cachers_mod.time, sys.getswitchinterval()
    cachers_mod.time = RealSleep()
    sys.setswitchinterval(1e-5)
    class S:  # scheduler facade used by do_op for its body yields
        @staticmethod
        def yield_(): _t.sleep(0)
    try:
        for i, ops in enumerate(case["parts"]):
            c = shared if shared is not None else ConcurrentCacher(inner, array, lock)
            cachers.append(c)
            def body(c=c, ops=ops, name=f"T{i}"):
                try:
                    for op in ops: do_op(S, mon, c, op, name)
                except BaseException as e:
                    errors.append((name, e))
            t = threading.Thread(target=body, name=f"T{i}", daemon=True)
            threads.append(t)
        for t in threads: t.start()
        deadline = _t.time() + 30
        for t in threads: t.join(max(0.0, deadline - _t.time()))
        if any(t.is_alive() for t in threads):
            raise Inconclusive("real threads did not finish within the watchdog")
    finally:
        cachers_mod.time = old_time
        sys.setswitchinterval(old_si)
    info = dict(parts=case["parts"], pre=case.get("pre", []), topology=case["topology"])
    if mon.violations:
        raise Violation("monitor (real threads): " + mon.violations[0] + f" | case={info}")
    for name, e in errors:
        raise Violation(f"caller {name} failed with {type(e).__name__}: {e} | case={info}") from e
    idxs = {shared._index(k) if shared else cachers[0]._index(k) for k in KEYS}
    require(all(array[i] == 0 for i in idxs), "lock table not all zero after every caller left", case=info)
    for c in cachers:
        bad = {k: v for k, v in c._locks.items() if v != 0}
        require(not bad, "a caller still believes it holds a lock", locks=bad, case=info)

@st.composite
def real_thread_cases(draw, tier):
    c = draw(sched_cases(tier))
    c.pop("choices", None)
    return c


# ------------------------------------------------------------------------------------------------ OpenmlSource on the owned schedule
def run_openml(case):
    """OpenmlSource._get_data (the one caller of get_set/rmv inside coba) on a ConcurrentCacher over the monitored inner cache:
    every reader receives the complete document, a document is requested from the server at most once while its entry stays
    cached (once more per removal; a download that fails part-way makes the source clear ALL its keys - through the cache's
    locks), and all the lock/monitor conditions of `sched` hold."""
    from coba.context import CobaContext
    from coba.environments.openml import OpenmlSource
    if case.get("preemptions") is not None:
        s = Sched(max_steps=8000, preemptions={a: b for a, b in case["preemptions"]})
    else:
        s = Sched(choices=case.get("choices", ()), max_steps=8000, default_choice=case.get("tail", 0))
    mon, seen = Monitor(), {}
    inner = MonitorCache(s, mon)
    KEY = dict(OpenmlSource(data_id=7)._cache_keys)   # kind -> the real cache key of the source
    for kind in case.get("pre", []):
        k = KEY[kind]
        e = Entry(k); e.parts = value_for(k, -2); e.complete = True
        inner.store[k] = e
    array, lock = SeenArray(s, 2 ** 16, seen), SimLock(s, "table-lock")
    shared = ConcurrentCacher(inner, array, lock)
    requests, results = defaultdict(int), []
    def make_http(mode):
        def http(url, *a, **kw):
            key = url.split(":", 1)[1]
            requests[key] += 1
            gen = requests[key]
            s.yield_()
            yield key
            s.yield_()
            if mode == "fail":
                raise Injected("download failed part-way")
            yield gen
            yield "end"
        return http
    old_cacher, old_time = CobaContext.cacher, cachers_mod.time
    CobaContext.cacher, cachers_mod.time = shared, SleepShim(s, seen)
    _STREAM_SCHED[0] = s
    try:
        for i, ops in enumerate(case["parts"]):
            name = f"T{i}"
            def body(ops=ops, name=name):
                for op in ops:
                    key = KEY[op["key"]]
                    if op["op"] == "rmv":
                        CobaContext.cacher.rmv(key)
                        continue
                    src = OpenmlSource(data_id=7)
                    src._http_request = make_http(op.get("http", "ok"))
                    try:
                        results.append((name, key, list(src._get_data("url:" + key, key))))
                    except Injected:
                        pass
            s.spawn(name, body)
        result = s.run()
    finally:
        CobaContext.cacher, cachers_mod.time = old_cacher, old_time
        _STREAM_SCHED[0] = None
    case["_switches"], case["_steps"] = len(s.trace), s.steps
    verdict(case, s, result, mon, array, lock, [shared])
    info = dict(parts=case["parts"], pre=case.get("pre", []), trace=s.trace[:60])
    for name, key, got in results:
        require(len(got) == 3 and got[0] == key and got[2] == "end", "a reader of OpenmlSource._get_data did not receive the complete document",
                caller=name, key=key, got=got, case=info)
    all_ops = [op for ops in case["parts"] for op in ops]
    fails = sum(1 for op in all_ops if op["op"] == "get" and op.get("http") == "fail")
    for key, n in requests.items():
        kind = next(k for k, v in KEY.items() if v == key)
        removals = sum(1 for op in all_ops if op["op"] == "rmv" and op["key"] == kind)
        bound = (0 if kind in case.get("pre", []) else 1) + removals + fails
        require(n <= bound, "a document was requested from the server more often than once per period in which it is not cached",
                key=key, requests=n, bound=bound, case=info)

@st.composite
def openml_cases(draw, tier):
    n = draw(st.sampled_from([2, 2, 3]))
    kinds = ["data", "feat"]
    def op():
        kind = draw(st.sampled_from(kinds))
        if draw(st.integers(0, 5)) == 0:
            return {"op": "rmv", "key": kind}
        return {"op": "get", "key": kind, "http": "fail" if draw(st.integers(0, 2)) == 0 else "ok"}
    return {"parts": [[op() for _ in range(draw(st.integers(1, 3)))] for _ in range(n)],
            "pre": draw(st.lists(st.sampled_from(kinds), unique=True, max_size=2)),
            "choices": draw(st.lists(st.integers(0, 3), max_size=120)), "tail": draw(st.sampled_from([0, 0, 1, 2, 3]))}

OPENML_PROGRAMS = [
    ([[{"op": "get", "key": "data", "http": "ok"}], [{"op": "get", "key": "feat", "http": "fail"}]], ["data"]),   # a failed download clears ALL keys of the source
    ([[{"op": "get", "key": "data", "http": "ok"}], [{"op": "get", "key": "data", "http": "fail"}]], []),
    ([[{"op": "get", "key": "data", "http": "ok"}], [{"op": "get", "key": "data", "http": "ok"}]], []),
    ([[{"op": "get", "key": "data", "http": "ok"}], [{"op": "rmv", "key": "data"}]], ["data"]),
    ([[{"op": "get", "key": "data", "http": "ok"}, {"op": "get", "key": "feat", "http": "ok"}], [{"op": "get", "key": "feat", "http": "fail"}, {"op": "get", "key": "data", "http": "ok"}]], []),
    ([[{"op": "get", "key": "data", "http": "ok"}], [{"op": "get", "key": "feat", "http": "fail"}], [{"op": "get", "key": "data", "http": "ok"}]], ["data"]),
]

def openml_pb_enumerate(tier):
    """every schedule with at most one preemption (thorough: two, for the two-caller programs) of the fixed programs above"""
    for parts, pre in OPENML_PROGRAMS:
        prog = {"parts": parts, "pre": pre}
        probe = dict(prog, preemptions=[])
        try:
            run_openml(probe)
        except Exception:
            pass
        L = probe.get("_steps", 80) + 2
        n_other = len(parts) - 1
        yield dict(prog, preemptions=[])
        for s1 in range(L):
            for i1 in range(n_other):
                yield dict(prog, preemptions=[[s1, i1]])
        if tier == "thorough" and n_other == 1:
            for s1 in range(L):
                for s2 in range(s1 + 1, L):
                    yield dict(prog, preemptions=[[s1, 0], [s2, 0]])

def nontrivial_openml(case):
    per = [{op["key"] for op in ops} for ops in case["parts"]]
    fails = any(op.get("http") == "fail" for ops in case["parts"] for op in ops)
    return (fails or any(a & b for a, b in itertools.combinations(per, 2))) and case.get("_switches", 3) >= 3

def classes_openml(case):
    out = []
    ops = [op for p in case["parts"] for op in p]
    if any(op["op"] == "rmv" for op in ops): out.append("with-rmv")
    if any(op.get("http") == "fail" for op in ops): out.append("download-fails-part-way(clears-all-keys)")
    if case.get("pre"): out.append("pre-populated")
    gets = defaultdict(int)
    for op in ops:
        if op["op"] == "get": gets[op["key"]] += 1
    if any(v >= 2 for v in gets.values()): out.append("same-document-read-by-several")
    return out

# ------------------------------------------------------------------------------------------------ real worker processes
def run_real_procs(case):
    """One watchdog expiry (60 s; a case normally takes 1-3 s) is inconclusive; three consecutive expiries on the same case are
    reported: some caller waits for ever."""
    for attempt in range(3):
        try:
            return run_real_procs_once(case)
        except Inconclusive:
            if attempt == 2:
                raise Violation(f"worker processes sharing the cache did not finish within 60 s in three consecutive attempts (a caller waits for ever) | case={case}")

def run_real_procs_once(case):
    from coba.context import CobaContext, NullLogger
    from coba.multiprocessing import CobaMultiprocessor
    from vlib.comps_c19 import CacheUser
    tmp = tempfile.mkdtemp(prefix="verif-c19p-")
    old = (CobaContext.cacher, CobaContext.logger)
    try:
        if case.get("cacher", "disk") == "file":
            from vlib.comps_c19 import FileCacher
            CobaContext.cacher = FileCacher(os.path.join(tmp, "cache"), case["delay"])
        else:
            CobaContext.cacher = DiskCacher(os.path.join(tmp, "cache"))
        CobaContext.logger = NullLogger()
        logpath = os.path.join(tmp, "getter.log")
        items = [(k, i) for i, k in enumerate(case["keys"])]
        user = CacheUser(logpath, case["delay"], case["n_lines"], case["procs"], case.get("nest", 0))
        box = {}
        def target():
            try:
                box["out"] = list(CobaMultiprocessor(user, case["procs"], case.get("maxtasks", 0)).filter(items))
            except BaseException as e:
                box["exc"] = e
        # workers are spawned with Python's default per-process hash salt (./check pins PYTHONHASHSEED=0 for the harness itself):
        # in real use no two worker processes share a salt, and the processes must still agree on which lock guards a key
        old_hs = os.environ.get("PYTHONHASHSEED")
        os.environ["PYTHONHASHSEED"] = "random"
        try:
            t = threading.Thread(target=target, daemon=True)
            t.start(); t.join(60)
        finally:
            if old_hs is None: os.environ.pop("PYTHONHASHSEED", None)
            else: os.environ["PYTHONHASHSEED"] = old_hs
        if t.is_alive():
            import multiprocessing as mp
            for p_ in mp.active_children():
                try: p_.kill()
                except Exception: pass
            raise Inconclusive("watchdog: the worker processes did not finish within 60 s")
        if "exc" in box:
            raise Violation(f"CobaMultiprocessor raised {type(box['exc']).__name__}: {box['exc']} | case={case}") from box["exc"]
        out = box["out"]
        require(sorted(o[0] for o in out) == sorted(items), "items lost or duplicated", out=out)
        for item, lines, pid in out:
            want = [f"{item[0]}-line{i}" for i in range(case["n_lines"])]
            require(lines == want, "a worker process received an incomplete cache entry", item=item, got=lines, want=want, case=case)
        runs = defaultdict(int)
        if os.path.exists(logpath):
            for l in open(logpath).read().splitlines():
                runs[l.split()[0]] += 1
        for k in set(case["keys"]):
            require(runs[k] == 1, "getter ran more than once for a key that stayed cached (or never)", key=k, runs=dict(runs), case=case)
    finally:
        CobaContext.cacher, CobaContext.logger = old
        shutil.rmtree(tmp, ignore_errors=True)

@st.composite
def real_proc_cases(draw, tier):
    procs = draw(st.integers(2, 4))
    first = draw(st.sampled_from(["k74", "k408", "k1"]))
    keys = [first] * procs + draw(st.lists(st.sampled_from(["k74", "k408", "k1"]), min_size=0, max_size=5))
    return {"cacher": draw(st.sampled_from(["disk", "file"])), "procs": procs, "keys": keys, "delay": draw(st.sampled_from([0.01, 0.03])),
            "n_lines": draw(st.integers(1, 4)), "maxtasks": draw(st.sampled_from([0, 0, 2]))}

def procs_fixed(tier):
    """two fixed real-process cases that every run executes: three workers meeting on one key of a DiskCacher / of a user-defined file cacher"""
    for kind in ("disk", "file"):
        yield {"cacher": kind, "procs": 3, "keys": ["k74", "k74", "k74", "k408", "k74"], "delay": 0.03, "n_lines": 3, "maxtasks": 0}
    # a caller nesting many reads of one key: the shared lock table must count far beyond 127 / 255 readers of one slot
    yield {"cacher": "disk", "procs": 2, "keys": ["k74", "k74", "k1"], "delay": 0.0, "n_lines": 2, "maxtasks": 0, "nest": 300}

SUBCHECKS = [
    Sub(name="sched", run=run_sched, strategy=sched_cases, nontrivial=nontrivial_sched, classes=classes_sched, key=key_sched, classify=classify_sched,
        quick=2400, thorough=120000, quick_shards=4, quick_budget_s=50,
        what="generated caller programs x generated schedules over ConcurrentCacher with instrumented lock/array/inner cache/sleep; invariant monitor, quiescence, sound deadlock detection"),
    Sub(name="openml", run=run_openml, strategy=openml_cases, nontrivial=nontrivial_openml, classes=classes_openml, key=key_sched,
        quick=1200, thorough=40000, quick_shards=2, thorough_shards=8, quick_budget_s=50,
        what="OpenmlSource._get_data (coba's own caller of get_set/rmv) by 2-3 concurrent callers with rmv in between, on the owned schedule: complete document for every reader, at most one server request per period in which the entry is not cached, all lock/monitor conditions"),
    Sub(name="openml_pb", run=run_openml, enumerate=openml_pb_enumerate, nontrivial=lambda c: len(c["preemptions"]) >= 1, exhaustive=True, key=key_sched,
        quick_shards=2, thorough_shards=8, quick_budget_s=50, thorough_budget_s=900,
        what="complete enumeration of all schedules with <= 1 preemption (thorough: <= 2 for two callers) of six fixed OpenmlSource programs (cached reader vs failing download that clears all keys, two cold readers, reader vs rmv, ...)"),
    Sub(name="pb", run=run_pb, enumerate=pb_enumerate, nontrivial=lambda c: len(c["preemptions"]) >= 1, exhaustive=True,
        quick_shards=4, quick_budget_s=50, thorough_budget_s=1200,
        what="complete enumeration of all schedules with <= k preemptions of fixed programs over a 7-operation alphabet (incl. nested get_set on the same key and on another key): quick = two one-operation callers, k=1; thorough = the same with k=2, plus two callers with up to two operations and three one-operation callers with k=1"),
    Sub(name="torn", run=run_torn, strategy=torn_cases, nontrivial=lambda c: len(c["lines"]) >= 1, quick=150, thorough=4000,
        quick_shards=2, what="DiskCacher: every byte prefix of a written .gz left on disk, read back directly and through ConcurrentCacher; getters failing after j lines"),
    Sub(name="memory", run=run_memory, strategy=memory_cases, nontrivial=nontrivial_memory, quick=1500, thorough=40000, quick_shards=1, thorough_shards=4,
        what="MemoryCacher alone and behind ConcurrentCacher over histories of get_set/rmv with value, list, generator and part-way failing generator getters: a failed getter leaves no entry and no lock, later callers get their own complete value, cached entries are not recomputed"),
    Sub(name="openml_torn", run=run_openml_torn, strategy=openml_torn_cases, nontrivial=lambda c: True, quick=150, thorough=6000, quick_shards=2, thorough_shards=8, quick_budget_s=50,
        what="OpenmlSource.read over ConcurrentCacher(DiskCacher) with one of its cache files (written by coba itself) cut at a byte: complete rows, or an exception after a prefix of them; no lock left; the next read is complete"),
    Sub(name="threads_real", run=run_real_threads, strategy=real_thread_cases, nontrivial=contended, classes=classes_sched, key=key_sched,
        quick=300, thorough=20000, quick_shards=2, what="the same generated caller programs on real threads with a real Lock (OS schedules sampled, switch interval 10 us); same monitor and quiescence oracle"),
    Sub(name="procs_fixed", run=run_real_procs, enumerate=procs_fixed, nontrivial=lambda c: True, quick_shards=3, thorough_shards=3, quick_budget_s=60,
        what="three fixed real-process cases (DiskCacher, user-defined file-backed Cacher: three spawned workers rendezvous on one key; DiskCacher with 300 nested reads of one key by each worker); complete entry for every item, getter ran once per key"),
    Sub(name="procs_real", run=run_real_procs, strategy=real_proc_cases, nontrivial=lambda c: len(set(c["keys"])) < len(c["keys"]), quick=4, thorough=160,
        quick_shards=2, thorough_shards=8, quick_budget_s=60, what="CobaMultiprocessor with spawned workers sharing a DiskCacher or a user-defined file-backed Cacher through the marshalled ConcurrentCacher: every item sees the complete entry, the getter ran exactly once per key (OS schedules sampled)"),
]
