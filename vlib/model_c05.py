"""Reference model for C05: an independent integer LCG with exact rational arithmetic for the derived values.

Nothing in here imports coba. The constants and the derivations are those the property anchors name:
    s <- (A*s + C) mod 2**30, uniform = s / 2**30                    (coba/random.py:207-217)
    randint(a,b)    = a + floor((b-a+1)*u)
    shuffle         = Durstenfeld, j = i + floor((n-i)*u) for i = 0..n-2
    choice(seq)     = seq[floor(len*u)]
    choice(seq,w)   = cumulative weights against u*sum(w)
    gauss           = Box-Muller on two consecutive uniforms, second value of a pair buffered
All integer derivations are done on the integer state (`(k*s) >> 30`), never through floats.
"""
import math
from fractions import Fraction

A = 116646453
C = 9
BITS = 30
M = 1 << BITS
MASK = M - 1
AINV = pow(A, -1, M)
assert (A * AINV) % M == 1 and A % 4 == 1 and C % 2 == 1   # Hull-Dobell: full period 2**30

def step(s):
    """next state (s may be any Python int, also negative or huge: a raw seed)"""
    return (A * s + C) & MASK

def back(s):
    """the state in [0,2**30) whose successor is s"""
    return (AINV * (s - C)) & MASK

def affine_pow(k):
    """(a_k, c_k) with step^k(s) = a_k*s + c_k mod M, k >= 0 (square and multiply on affine maps)"""
    ra, rc = 1, 0           # identity
    ba, bc = A, C
    while k:
        if k & 1:
            ra, rc = (ba * ra) & MASK, (ba * rc + bc) & MASK
        ba, bc = (ba * ba) & MASK, (ba * bc + bc) & MASK
        k >>= 1
    return ra, rc

def jump(s, k):
    a, c = affine_pow(k)
    return (a * s + c) & MASK

def seed_for(state, pos, wrap=0):
    """an integer seed whose pos-th drawn state (1-based) is `state`; wrap adds a multiple of 2**30"""
    s = state & MASK
    if pos < 64:
        for _ in range(pos):
            s = back(s)
    else:
        # back^pos = step^(M-pos) because the period is exactly M
        s = jump(s, (M - pos) % M)
    return s + wrap * M

def states_from(seed, n):
    out = []
    s = seed
    for _ in range(n):
        s = (A * s + C) & MASK
        out.append(s)
    return out

class Stream:
    """model of one generator instance: the integer state, the buffered second gaussian, a sync flag.

    synced == False means the model can no longer know the state (after a call whose handling the property leaves
    open, e.g. the redraw a repaired gauss does for log(0)); from then on only contracts are checked."""
    def __init__(self, seed):
        self.s = int(seed)
        self.n = 0
        self.gbuf = None      # (s1, s2) of the pair whose sine half is pending
        self.synced = True
        self.used = False

    def next(self):
        self.s = (A * self.s + C) & MASK
        self.n += 1
        return self.s

    def peek(self, k=1):
        s = self.s
        for _ in range(k):
            s = (A * s + C) & MASK
        return s

def mulshift(k, s):
    """floor(k * s / 2**30) exactly"""
    return (k * s) >> BITS

def shuffle_expected(items, states):
    l = list(items)
    n = len(l)
    for i, s in zip(range(n - 1), states):
        j = i + mulshift(n - i, s)
        l[i], l[j] = l[j], l[i]
    return l

def uniform_exact(lo, hi, s):
    lo, hi = Fraction(lo), Fraction(hi)
    return lo + (hi - lo) * Fraction(s, M)

def box_muller(s1, s2):
    """(cos half, sin half) of the pair; s1 must be > 0"""
    R = math.sqrt(-2.0 * math.log(s1 / M))
    T = 2.0 * math.pi * (s2 / M)
    return R * math.cos(T), R * math.sin(T)

GAUSS_ABS_MAX = math.sqrt(2 * BITS * math.log(2)) * (1 + 1e-12)   # |N(0,1) draw| <= sqrt(-2 ln 2**-30) = 6.4489...

def weight_window(weights):
    """exact cumulative sums (Fractions) and total of non-negative weights"""
    cums, t = [], Fraction(0)
    for w in weights:
        t += Fraction(w)
        cums.append(t)
    return cums, t

def index_admissible(weights, i, s, cums=None, tot=None, rel_tol=Fraction(1, 1 << 40)):
    """True when picking index i for state s agrees with the cumulative-weight rule under *either* tie convention:
    cum[i-1] <= u*tot <= cum[i] (within rel_tol*tot for float summation) and weights[i] > 0."""
    if cums is None:
        cums, tot = weight_window(weights)
    if not (0 <= i < len(weights)) or not (weights[i] > 0):
        return False
    x = Fraction(s, M) * tot
    lo = cums[i - 1] if i > 0 else Fraction(0)
    slack = rel_tol * tot
    return lo - slack <= x <= cums[i] + slack

def consumption(call, gflag):
    """(number of uniforms the call draws, new gauss-buffer flag) - a function of the call alone.
    gflag: True when the sine half of a Box-Muller pair is pending."""
    name = call[0]
    if name == "random" or name == "randint":
        return 1, gflag
    if name == "randoms" or name == "randints":
        return call[1], gflag
    if name == "shuffle":
        return max(len(call[1]) - 1, 0), gflag
    if name in ("choice", "choicew"):
        return 1, gflag
    if name in ("gauss", "gausses"):
        n = 1 if name == "gauss" else call[1]
        used = 0
        while n > 0:
            if gflag:
                gflag = False
            else:
                used += 2; gflag = True
            n -= 1
        return used, gflag
    raise ValueError(name)

# ---------------------------------------------------------------------------------- states that round onto max
def naive_scaled(lo, hi, s):
    """min+(max-min)*u in double arithmetic, the formula the anchors name"""
    return lo + (hi - lo) * (s / M)

def rounding_band(lo, hi):
    """smallest state whose scaled uniform reaches max in double arithmetic (the map is monotone in the state, so the band
    is [result, 2**30-1]); None when even the largest state stays below max"""
    if not (hi > lo) or naive_scaled(lo, hi, M - 1) < hi:
        return None
    a, b = 0, M - 1          # invariant: naive(a) < hi <= naive(b)   (naive(0) == lo < hi)
    while b - a > 1:
        mid = (a + b) // 2
        if naive_scaled(lo, hi, mid) >= hi:
            b = mid
        else:
            a = mid
    return b

_CHAIN_CACHE = {}
def redraw_chains(lo, hi, limit=1 << 18):
    """states of the rounding band whose successor is in the band too, as (state, chain length): a generator that redraws
    must redraw `chain length` times in a row when a call starts on that state. Found by walking the band (not hard-coded)."""
    key = (repr(lo), repr(hi))
    if key not in _CHAIN_CACHE:
        first = rounding_band(lo, hi)
        out = []
        if first is not None and M - first <= limit:
            for s in range(first, M):
                t, k = step(s), 1
                while t >= first:
                    t, k = step(t), k + 1
                if k >= 2:
                    out.append((s, k))
        _CHAIN_CACHE[key] = out
    return _CHAIN_CACHE[key]
