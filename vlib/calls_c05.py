"""C05: how a call descriptor is applied to a generator-like object (a CobaRandom instance or the coba.random module) and
how results are encoded for the cross-process comparison. Imported by props/c05.py and by the child process (child_c05.py).
Imports nothing from coba.

call descriptors (plain data):
    ["random"] | ["random", lo, hi] | ["randoms", n] | ["randoms", n, lo, hi] | ["randint", a, b] | ["randints", n, a, b]
    ["shuffle", items, inplace, as_tuple] | ["choice", seq, weights|None] | ["choicew", seq, weights|None]
    ["gauss"] | ["gauss", mu, sigma] | ["gausses", n] | ["gausses", n, mu, sigma]
seed descriptors:
    ["int", v] | ["float", repr] | ["str", s]      (["target", ...] is resolved to ["int", v] by the caller)
"""

def build_seed(desc):
    k = desc[0]
    if k == "int":
        return int(desc[1])
    if k == "float":
        return float(desc[1])
    if k == "str":
        return str(desc[1])
    raise ValueError(f"unresolved seed descriptor {desc!r}")

def exec_call(obj, call):
    """-> (result, aux) ; aux is the container handed to shuffle (to check in-place semantics), else None"""
    name = call[0]
    if name == "random":
        return (obj.random() if len(call) == 1 else obj.random(call[1], call[2])), None
    if name == "randoms":
        return (obj.randoms(call[1]) if len(call) == 2 else obj.randoms(call[1], call[2], call[3])), None
    if name == "randint":
        return obj.randint(call[1], call[2]), None
    if name == "randints":
        return obj.randints(call[1], call[2], call[3]), None
    if name == "shuffle":
        items = list(call[1])
        if not call[2] and call[3]:
            items = tuple(items)
        return obj.shuffle(items, call[2]), items
    if name in ("choice", "choicew"):
        seq = list(call[1])
        w = None if call[2] is None else list(call[2])
        f = getattr(obj, name)
        return (f(seq) if w is None else f(seq, w)), None
    if name == "gauss":
        return (obj.gauss() if len(call) == 1 else obj.gauss(call[1], call[2])), None
    if name == "gausses":
        return (obj.gausses(call[1]) if len(call) == 2 else obj.gausses(call[1], call[2], call[3])), None
    raise ValueError(f"unknown call {call!r}")

def enc(v):
    """exact, JSON-able encoding of a result (floats by hex so that equality is bit equality)"""
    if isinstance(v, bool) or v is None or isinstance(v, (int, str)):
        return v
    if isinstance(v, float):
        return {"f": v.hex()}
    if isinstance(v, tuple):
        return {"t": [enc(x) for x in v]}
    if isinstance(v, list):
        return [enc(x) for x in v]
    return {"r": repr(v)}
