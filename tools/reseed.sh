#!/bin/bash
# tools/reseed.sh [jobs-per-check] : re-run the quick tier of every stored seeded change's property against the changed tree
# (no coba test run) and list every change whose outcome differs from what its meta.json records. Regression test for the
# sensitivity of the checks: run it after the checks were edited. Output: one line per seed, then the differences.
J="${1:-4}"; cd "$(dirname "$0")/.."
one() {
  d="$1"; id="$(basename "$(dirname "$d")")"; n="$(basename "$d")"
  want=$(python3 -c "import json;m=json.load(open('$d/meta.json'))['verified'];print(m.get('check_rc'), (m.get('also_caught_by') or '').split(' ')[0])")
  set -- $want; wrc="$1"; also="${2:-}"
  out=$(SKIP_TESTS=1 tools/seedcheck.sh "$d" "$id" --jobs "$J" 2>&1); rc=$(echo "$out" | grep -o "check rc=[0-9]*" | tail -1 | cut -d= -f2)
  line="$id/$n recorded=$wrc now=$rc"
  if [ -n "$also" ] && [ "$rc" != 1 ]; then
    out2=$(SKIP_TESTS=1 tools/seedcheck.sh "$d" "$also" --jobs "$J" 2>&1); rc2=$(echo "$out2" | grep -o "check rc=[0-9]*" | tail -1 | cut -d= -f2)
    line="$line also($also)=$rc2"
  fi
  echo "$line"
}
export -f one; export J
ls -d seeded/C*/[0-9]* | sort -V | xargs -P "${PAR:-4}" -I{} bash -c 'one {}' | tee /tmp/reseed.out
echo "--- differences"; awk '{split($2,a,"=");split($3,b,"="); if (a[2]!=b[2]) print}' /tmp/reseed.out
