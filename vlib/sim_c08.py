"""Scheduler-backed doubles for coba.pipes.multiprocessing (C08) and the picklable filters used by its checks.

`install(sched)` substitutes the three module globals through which Multiprocessor reaches the OS:
  spawn_context (Queue, Event), MyProcessLine (worker processes), ThreadLine (loader thread)
Queues/events survive the pickle round trip of the worker line by registry id (as the OS handles do under spawn);
each simulated process receives its own pickled copy of the line; completion callbacks run as separate participants.
"""
import json, os, pickle, queue as _queue
from traceback import format_tb

REG = {}          # id -> SimQueue / SimEvent of the current case
STATE = {"sched": None, "pids": 0, "procs": [], "mode": "real"}

def _lookup(i):
    return REG[i]

class SimQueue:
    def __init__(self, sched, maxsize=0):
        self.s, self.maxsize, self.items = sched, maxsize, []
        self.id = len(REG); REG[self.id] = self
        self.total_put = 0
    def __reduce__(self):
        return (_lookup, (self.id,))
    def put(self, item, block=True, timeout=None):
        self.s.wait_until(lambda: not (self.maxsize and len(self.items) >= self.maxsize), on=f"queue{self.id}.put")
        self.items.append(item); self.total_put += 1
        self.s.touch()
    def get(self, block=True, timeout=None):
        self.s.wait_until(lambda: len(self.items) > 0, on=f"queue{self.id}.get")
        self.s.touch()
        return self.items.pop(0)
    def get_nowait(self):
        self.s.yield_()
        if not self.items:
            raise _queue.Empty()
        self.s.touch()
        return self.items.pop(0)
    def qsize(self):
        return len(self.items)
    def empty(self):
        return not self.items
    def close(self): pass
    def cancel_join_thread(self): pass

class SimEvent:
    def __init__(self, sched):
        self.s, self.flag = sched, False
        self.id = len(REG); REG[self.id] = self
    def __reduce__(self):
        return (_lookup, (self.id,))
    def set(self):
        self.s.yield_()
        self.flag = True
        self.s.touch()
    def is_set(self):
        return self.flag
    def wait(self, timeout=None):
        self.s.wait_until(lambda: self.flag, on=f"event{self.id}.wait")
        return True

class SimContext:
    def __init__(self, sched):
        self.s = sched
    def Queue(self, maxsize=0):
        return SimQueue(self.s, maxsize)
    def Event(self):
        return SimEvent(self.s)

def make_process_line(sched):
    class SimProcessLine:
        """Stands in for MyProcessLine/ProcessLine: a 'process' is a scheduler participant running a pickled copy of the line."""
        def __init__(self, line, callback=None, read_wait_store=None):
            self._line, self._callback = line, callback
            self._exception = self._traceback = None
            self._poisoned = False
            self._alive = False
            self.exitcode = None
            STATE["pids"] += 1
            self.pid = STATE["pids"]
            self.name = f"proc{self.pid}"
            self.started = False
        def start(self):
            assert not self.started, "process started twice"
            sched.yield_()          # starting a process is slow: anything else may run meanwhile
            self.started = True
            self._alive = True
            line = pickle.loads(pickle.dumps(self._line))   # spawn: the child works on its own copy
            STATE["procs"].append(self)
            def body():
                ex = tb = None
                try:
                    line.run()
                except Exception as e:
                    ex, tb = e, format_tb(e.__traceback__)
                self._exception, self._traceback = ex, tb
                self._poisoned = bool(hasattr(line[0], "_poisoned") and line[0]._poisoned)
                self.exitcode = 0
                self._alive = False
                if self._callback:
                    cb = self._callback
                    sched.spawn(f"cb-{self.name}", lambda: cb(self), daemon=True)
            sched.spawn(self.name, body, daemon=True)
            sched.yield_()
        def is_alive(self): return self._alive
        def join(self, timeout=None):
            sched.wait_until(lambda: not self._alive, on=f"{self.name}.join")
        @property
        def pipeline(self): return self._line
        @property
        def exception(self): return self._exception
        @property
        def traceback(self): return self._traceback
        @property
        def poisoned(self): return self._poisoned
    return SimProcessLine

def make_thread_line(sched):
    class SimThreadLine:
        def __init__(self, line, callback=None):
            self._line, self._callback = line, callback
            self._exception = self._traceback = None
            self._poisoned = False
            self._alive = False
            self.exitcode = 0
            self.pid = 0
        def start(self):
            self._alive = True
            def body():
                try:
                    self._line.run()
                except Exception as e:
                    self._exception, self._traceback = e, format_tb(e.__traceback__)
                self._poisoned = bool(hasattr(self._line[0], "_poisoned") and self._line[0]._poisoned)
                self._alive = False
                if self._callback:
                    cb = self._callback
                    sched.spawn("cb-loader", lambda: cb(self), daemon=True)
            sched.spawn("loader", body, daemon=True)
        def is_alive(self): return self._alive
        def join(self, timeout=None):
            sched.wait_until(lambda: not self._alive, on="loader.join")
        @property
        def pipeline(self): return self._line
        @property
        def exception(self): return self._exception
        @property
        def traceback(self): return self._traceback
        @property
        def poisoned(self): return self._poisoned
    return SimThreadLine

class installed:
    """Context manager: coba.pipes.multiprocessing talks to the scheduler instead of the OS."""
    def __init__(self, sched):
        self.sched = sched
    def __enter__(self):
        import coba.pipes.multiprocessing as m
        self.m = m
        self.saved = (m.spawn_context, m.MyProcessLine, m.ThreadLine)
        REG.clear()
        STATE.update(sched=self.sched, pids=0, procs=[], mode="sim")
        m.spawn_context = SimContext(self.sched)
        m.MyProcessLine = make_process_line(self.sched)
        m.ThreadLine = make_thread_line(self.sched)
        return self
    def __exit__(self, *a):
        self.m.spawn_context, self.m.MyProcessLine, self.m.ThreadLine = self.saved
        STATE.update(sched=None, mode="real")
        REG.clear()
        return False

# ------------------------------------------------------------------------------------------------ picklable filters
class InjectedError(Exception):
    def __init__(self, item):
        super().__init__(f"injected failure for item {item}")
        self.item = item
    def __reduce__(self):
        return (InjectedError, (self.item,))

class PositionalError(Exception):
    """a picklable error (it defines __reduce__) that cannot be rebuilt from its .args: two required constructor arguments,
    one formatted message - like json.JSONDecodeError(msg, doc, pos)"""
    def __init__(self, item, detail):
        super().__init__(f"injected failure for item {item} ({detail})")
        self.item, self.detail = item, detail
    def __reduce__(self):
        return (PositionalError, (self.item, self.detail))

def who():
    s = STATE["sched"]
    if s is not None:
        p = s.me()
        return p.name if p else "main"
    return os.getpid()

KINDS = {"Injected": InjectedError, "AssertionError": AssertionError, "EOFError": EOFError, "BrokenPipeError": BrokenPipeError,
         "FileNotFoundError": FileNotFoundError, "ValueError": ValueError, "KeyError": KeyError, "TypeError": TypeError,
         "TimeoutError": TimeoutError, "RuntimeError": RuntimeError, "IndexError": IndexError, "AttributeError": AttributeError,
         "ImportError": ImportError, "OSError": OSError, "StopIteration-like": LookupError,
         "Positional": PositionalError, "JSONDecodeError": json.JSONDecodeError}

def make_exc(kind, item):
    if kind == "die":
        # the worker process dies hard in the middle of an item (real driver only). Outputs of earlier items are first given
        # time to leave the process: dying while the queue's feeder thread holds the cross-process write lock would block the
        # other workers for ever - that is a property of multiprocessing.Queue, not of the code under test
        import time, multiprocessing
        if multiprocessing.parent_process() is None:
            raise InjectedError(item)   # not inside a worker process (in-process configuration): never kill the harness itself
        time.sleep(0.05)
        os._exit(3)
    cls = KINDS[kind]
    if cls is PositionalError: return cls(item, "detail")
    if cls is json.JSONDecodeError: return cls(f"injected failure for item {item}", "{}", 0)
    return cls(item) if cls is InjectedError else cls(f"injected failure for item {item}")

ALIASES = {"None": None, "empty-str": "", "empty-tuple": (), "zero-float": 0.0, "False": False}   # legal items that are falsy / None

class TagFilter:
    """f(item): raises for items in `raising`; yields `fan[item]` outputs (as a generator) for items in `fan`;
    otherwise returns the single output (item, 0, worker). Items are small ints; `alias` sends some of them through the
    Multiprocessor as another value (None, '', (), 0.0, False - any finite stream of items is legal) and maps them back here."""
    def __init__(self, raising=(), fan=None, delay=0.0, kinds=None, alias=None, slow_start=0.0):
        self.raising, self.fan, self.delay = set(raising), dict(fan or {}), delay
        self.kinds = dict(kinds or {})   # item -> name in KINDS (default: InjectedError)
        self.alias_inv = {ALIASES[v]: int(k) for k, v in (alias or {}).items()}
        self.slow_start = slow_start     # seconds a real worker process needs before its copy of the filter is usable
    def __getstate__(self):
        return dict(self.__dict__)
    def __setstate__(self, state):
        self.__dict__.update(state)
        if state.get("slow_start"):
            import time, multiprocessing
            # only while a spawned worker process is unpickling what its parent sent (the process object is not bootstrapped yet,
            # so parent_process() is still None here; multiprocessing marks this phase with _inheriting)
            if getattr(multiprocessing.current_process(), "_inheriting", False):
                time.sleep(state["slow_start"])
    def filter(self, item):
        if isinstance(item, list):       # items that travel as freshly built one-element lists (stream='fresh')
            item = item[0]
        if self.alias_inv and not (isinstance(item, int) and not isinstance(item, bool)):
            item = self.alias_inv.get(item, item)
        if self.delay:
            import time; time.sleep(self.delay)
        w = who()
        if item in self.raising:
            raise make_exc(self.kinds.get(item, "Injected"), item)
        if item in self.fan:
            return ((item, j, w) for j in range(self.fan[item]))
        return (item, 0, w)
    def expected(self, items):
        out = []
        for it in items:
            if isinstance(it, list): it = it[0]
            if self.alias_inv and not (isinstance(it, int) and not isinstance(it, bool)): it = self.alias_inv.get(it, it)
            if it in self.raising: continue
            out.extend((it, j) for j in range(self.fan[it])) if it in self.fan else out.append((it, 0))
        return out
