#!/usr/bin/env python3
"""Print the counts and the markdown table of seeded changes (seeded/<ID>/<n>/meta.json + seeded/NOTES.json) for DESIGN.md section 10.

history categories (from seeded/NOTES.json, keyed <ID>/<n>):
  no note                        -> caught by the check as it stood when the change arrived
  note starting 'not pursued'    -> outside the property's domain; not caught, reason given
  note starting 'open:'          -> missed, and the check was not strengthened yet (says what the change needs)
  any other note                 -> missed / mis-reported at first, caught after the strengthening the note describes
A change whose own check stays quiet but that meta.json records as `also_caught_by` a neighbouring check counts as cross-property.
"""
import json, glob, os, re, sys
H = os.path.dirname(os.path.dirname(os.path.abspath(__file__)))
notes = json.load(open(f"{H}/seeded/NOTES.json"))
rows, tally = [], {"asis": 0, "strengthened": 0, "cross": 0, "notpursued": 0, "open": 0, "MISSED": 0}
for p in sorted(glob.glob(f"{H}/seeded/*/*/meta.json"), key=lambda p: (p.split('/')[-3], int(p.split('/')[-2]))):
    pid, n = p.split('/')[-3], p.split('/')[-2]
    m = json.load(open(p)); v = m["verified"]
    subs = sorted({re.match(r"\[(C\d+\.\w+)\]", l).group(1) for l in v.get("check_output", []) if re.match(r"\[(C\d+\.\w+)\]", l)})
    note = notes.get(f"{pid}/{n}")
    own = v.get("check_rc") == 1
    extra = v.get("also_caught_by")
    if own:
        caught = ", ".join(subs) or "caught"
        tally["strengthened" if note and not note.startswith("open:") else "asis"] += 1
    elif extra:
        caught = "not by " + pid + "; " + extra.split(" (")[0]
        tally["cross"] += 1
    elif note and note.startswith("open:"):
        caught = "NOT CAUGHT (open)"
        tally["open"] += 1
    elif note and note.startswith("not pursued"):
        caught = "not caught (outside the domain)"
        tally["notpursued"] += 1
    else:
        caught = "MISSED" if v.get("check_rc") == 0 else f"check rc={v.get('check_rc')}"
        tally["MISSED"] += 1
    if own and extra: caught += "; also " + extra.split(" (")[0]
    rows.append(f"| {pid}/{n} | {(m.get('summary') or '')[:170].replace('|','/')} | {caught} | {note or 'caught by the check as it stood'} |")
print(f"<!-- {sum(tally.values())} changes: {tally} -->")
print("| seed | change (author's summary, truncated) | quick tier: sub-checks reporting it | history |\n|---|---|---|---|")
print("\n".join(rows))
if tally["MISSED"]:
    print("UNEXPLAINED MISSES PRESENT", file=sys.stderr)
