"""C09 Ordering and selection filters keep exactly the interactions they promise.

Every case is (interaction sequence descriptor, filter descriptor).  The sequence is built into real coba
interaction objects (simulated / logged / grounded; None, scalar, dense list/tuple, headed dense and sparse
contexts; list, BinaryReward, DiscreteReward and plain-callable rewards), deep-frozen into a snapshot, pushed
through the real filter and compared - field by field - with what a small reference model says must come out:

* Shuffle  : Durstenfeld shuffle driven by an independent re-implementation of coba's LCG (a=116646453, c=9,
             m=2**30, integer arithmetic only); logged interactions use the seed multiplied by 3.21 as the
             comment in Shuffle.filter documents.
* Riffle   : pop-from-the-end / insert at i*spacing + randint(0,spacing) over the same reference LCG.
* Sort     : Python's stable `sorted` with the key tuple built from the descriptor.
* Take/Slice: list slicing; strict Take all-or-nothing.
* Reservoir: min(n,N) input interactions as a sub-multiset, strict n-or-none, same output for the same seed,
             and (N > n >= 1) at least two of a fixed set of seeds give different samples.
* Where    : environment kept iff N and the feature count are within bounds, interaction kept iff its action
             count is within bounds.
* Cache, Chunk, Params, Identity, Batch->Unbatch, BatchSafe(F) over batched/unbatched input: identity resp. F.
* the `Environments` shortcut methods over 1-3 different environments build pipelines in which every member reads the
  same as the filter model of its own interactions (after Finalize), whatever the order of the reads.

After every call the input interactions (and the caller's list) must be unchanged.
"""
import itertools, math
from collections import Counter
from hypothesis import strategies as st

from vlib.core import Sub
from vlib.util import Violation, require, use_repo
use_repo()

from coba.primitives import (SimulatedInteraction, LoggedInteraction, GroundedInteraction, BinaryReward,
                             DiscreteReward, Environment)
from coba.pipes.rows import HeadDense
from coba.environments import filters as F
from coba.pipes import filters as P
from coba.environments import Environments
from coba.context import CobaContext, NullLogger

ID = "C09"
LEVEL = "exploration"
DESIGN_REF = "DESIGN.md section 6, C09"
RULE = ("cases = (interaction sequence of length 0..12 [thorough 0..40, boundary-biased], one interaction kind "
        "(simulated | logged | logged-with-actions-and-rewards | grounded), one context kind (None | number | string | "
        "list | tuple | headed dense | sparse), one rewards form; filter descriptor with parameters drawn around the "
        "boundaries given by the sequence: counts 0/None/N-1..N+3, slice start/stop/step, (min,max) ranges with either "
        "bound open placed around N / the feature count / the action counts, seeds incl. 0 and > 2**30, sort keys as "
        "indices or names in all calling conventions, batch sizes around N, list or one-shot iterator input); generated "
        "by Hypothesis; non-trivial = at least 2 interactions and a parameter at or across a boundary (see each "
        "sub-check); distinct = distinct canonical JSON of the case")
ASSUMPTIONS = [
    "Sort() without keys only for dense contexts, Sort(keys) only for dense/headed/sparse contexts whose sorted columns hold mutually comparable values (no None/NaN); sparse sort columns are numeric because absent keys compare as 0",
    "Take(None, strict=True) and None seeds (time-seeding) are not generated; Shuffle seeds are ints >= 0, Riffle/Reservoir seeds ints or floats",
    "Slice step >= 1, start/stop None or >= 0; Riffle spacing >= 1 (0 only as the documented degenerate 'nothing moves' case)",
    "Where(n_actions=...) only on interactions that carry 'actions'; the feature count of a sparse context with explicit zeros, or of an environment whose sparse rows differ in size, is ambiguous: then only 'all or nothing' is asserted",
    "one context kind, one key set and one rewards form per environment; dense contexts of one environment have equal length",
    "the reference LCG and the pop/insert order of Riffle restate coba's documented generator (L'Ecuyer constants) and Riffle docstring; the 3.21 reseeding for logged data is taken from the comment in Shuffle.filter",
    "interactions are compared as plain mappings (the dict subclass and the key order are not part of the content)",
]

# =============================================================================================== reference LCG
class RefLCG:
    """Independent integer model of coba.random.CobaRandom's uniform stream."""
    A, C, M = 116646453, 9, 2 ** 30

    def __init__(self, seed):
        if isinstance(seed, float) and math.isfinite(seed) and seed == math.floor(seed):
            seed = int(seed)
        if not isinstance(seed, int):
            seed = int.from_bytes(str(seed).encode("utf-8"), "big") % 2 ** 20
        self.s = seed

    def state(self):
        self.s = (self.A * self.s + self.C) % self.M
        return self.s

    def below(self, k):
        """floor(k * u) for the next uniform u = s / 2**30, computed exactly"""
        return (k * self.state()) // self.M

def ref_shuffle(n, seed):
    idx = list(range(n))
    if n < 2: return idx
    g = RefLCG(seed)
    for i in range(n - 1):
        j = i + g.below(n - i)
        idx[i], idx[j] = idx[j], idx[i]
    return idx

def ref_riffle(n, spacing, seed):
    idx = list(range(n))
    g = RefLCG(seed)
    for i in range(n // (spacing + 1)):
        idx.insert(i * spacing + g.below(spacing + 1), idx.pop())
    return idx

A_INV = pow(RefLCG.A, -1, RefLCG.M)
def seed_with_state(k, target):
    """the seed in [0, 2**30) whose k-th state (k >= 1) is `target`"""
    s = target
    for _ in range(k):
        s = (A_INV * (s - RefLCG.C)) % RefLCG.M
    return s

# =============================================================================================== building sequences
class PlainReward:
    """a reward function that is an ordinary callable (not a coba Rewards object)"""
    def __init__(self, k): self.k = k
    def __call__(self, action): return self.k + len(str(action)) / 4

NUMS = [0, 1, 2, -1, 0.5, 1.0, 2.5, 3]
STRS = ["a", "b", "c", "ab", ""]
SKEYS = ["a", "b", "c", "d"]
IKEYS = [0, 1, 2, 5]
HEADERS = ["h0", "h1", "h2", "h3"]

def make_context(seq, c):
    k = seq["ctx"]
    if k in ("none", "num", "str"): return c
    if k == "list": return list(c)
    if k == "tuple": return tuple(c)
    if k == "head": return HeadDense(list(c), {h: i for i, h in enumerate(HEADERS[:len(c)])})
    if k == "sparse": return dict(c)
    raise ValueError(k)

def make_rewards(seq, row):
    form, acts, r = seq["rwd"], row["a"], row["r"]
    if form == "list": return list(r)
    if form == "binary": return BinaryReward(acts[r[0] % len(acts)], 1 + r[1])
    if form == "discrete": return DiscreteReward(list(acts), list(r))
    if form == "fn": return PlainReward(r[0])
    raise ValueError(form)

def build(seq):
    out = []
    kind = seq["kind"]
    for i, row in enumerate(seq["rows"]):
        ctx = make_context(seq, row["c"])
        extra = {"tag": seq.get("tag0", 0) + i} if seq["tag"] else {}
        if kind == "sim":
            it = SimulatedInteraction(ctx, list(row["a"]), make_rewards(seq, row), **extra)
        elif kind == "gnd":
            fb = list(row["fb"]) if seq["rwd"] == "list" else DiscreteReward(list(row["a"]), list(row["fb"]))
            it = GroundedInteraction(ctx, list(row["a"]), make_rewards(seq, row), fb, userid=row["u"], isnormal=bool(row["u"] % 2), **extra)
        elif kind == "log":
            kw = dict(extra)
            if seq["log_actions"]: kw["actions"] = list(row["a"])
            it = LoggedInteraction(ctx, row["a"][row["la"] % len(row["a"])], row["lr"], row["p"] if seq["log_prob"] else None, **kw)
        elif kind == "logfull":   # what the Logged filter produces: a simulated interaction plus action, reward, probability
            it = SimulatedInteraction(ctx, list(row["a"]), make_rewards(seq, row), action=row["a"][row["la"] % len(row["a"])],
                                      reward=row["lr"], probability=row["p"], **extra)
        else:
            raise ValueError(kind)
        ko = row.get("ko", 0)
        if ko:   # same mapping, other key insertion order (an interaction produced by another code path)
            keys = list(it)
            keys = keys[ko % len(keys):] + keys[:ko % len(keys)]
            if ko >= 3: keys.reverse()
            for k in keys: it[k] = it.pop(k)
        out.append(it)
    return out

def is_logged(seq):
    return seq["kind"] in ("log", "logfull")

def has_actions(seq):
    return seq["kind"] != "log" or seq["log_actions"]

# ----------------------------------------------------------------------------------------------- freezing
def fz(v):
    """hashable, type-faithful image of a value"""
    if v is None: return None
    if isinstance(v, bool): return ("b", v)
    if isinstance(v, int): return ("i", v)
    if isinstance(v, float): return ("f", "nan") if v != v else ("f", v)
    if isinstance(v, str): return ("s", type(v).__name__, str(v))
    if isinstance(v, HeadDense): return ("head", tuple(fz(x) for x in v), tuple(sorted(v.headers.items())))
    if isinstance(v, (list, tuple)): return (type(v).__name__, tuple(fz(x) for x in v))
    if isinstance(v, dict): return ("dict", tuple(sorted(((fz(k), fz(x)) for k, x in v.items()), key=repr)))
    return ("obj", type(v).__name__, repr(v))

def fz_interaction(it):
    require(isinstance(it, dict), "a filter yielded something that is not an interaction mapping", got=type(it).__name__)
    acts = it.get("actions")
    items = []
    for k, v in it.items():
        if callable(v) and not isinstance(v, (list, tuple, dict, str)):
            tab = tuple(fz(v(a)) for a in acts) if isinstance(acts, list) else ()
            items.append((k, ("call", type(v).__name__, tab)))
        else:
            items.append((k, fz(v)))
    return tuple(sorted(items, key=lambda kv: kv[0]))

def show(frozen):
    d = dict(frozen)
    return d.get("tag", d.get("context"))

class Fed:
    """the interactions handed to one filter call, with their snapshot"""
    def __init__(self, seq):
        self.seq = seq
        self.ins = build(seq)
        self.snap = [fz_interaction(i) for i in self.ins]
        self.ids = [id(i) for i in self.ins]
        self.n = len(self.ins)

    def feed(self):
        if self.seq["it"]:
            return (i for i in self.ins)
        return self.ins

    def check_untouched(self, what):
        require([id(i) for i in self.ins] == self.ids, f"{what} reordered or replaced the caller's list of interactions")
        now = [fz_interaction(i) for i in self.ins]
        if now != self.snap:
            k = next(j for j in range(self.n) if now[j] != self.snap[j])
            raise Violation(f"{what} altered the content of input interaction {k} | before={self.snap[k]!r} after={now[k]!r}")

    def positions(self, out):
        """input index of each output interaction where it can be told (identity first, then unique content)"""
        byid = {i: k for k, i in enumerate(self.ids)}
        cnt = Counter(self.snap)
        bycontent = {s: k for k, s in enumerate(self.snap) if cnt[s] == 1}
        res = []
        for o in out:
            k = byid.get(id(o))
            if k is None:
                try: k = bycontent.get(fz_interaction(o))
                except Exception: k = None
            res.append(k)
        return res

    def expect(self, out, exp_idx, what, **info):
        """the output must be, position by position and field by field, the input interactions exp_idx"""
        out = list(out)
        got = [fz_interaction(o) for o in out]
        want = [self.snap[k] for k in exp_idx]
        if got != want:
            pos = self.positions(out)
            if len(got) != len(want):
                msg = f"{what}: {len(got)} interactions came out, {len(want)} expected"
            elif Counter(got) != Counter(want):
                j = next(j for j in range(len(got)) if got[j] != want[j])
                if pos[j] is None:
                    msg = f"{what}: output {j} is not (field by field) an expected input interaction: got {got[j]!r} want {want[j]!r}"
                else:
                    msg = f"{what}: the wrong interactions came out"
            else:
                msg = f"{what}: right interactions, wrong order"
            raise Violation(msg + f" | N={self.n} got_inputs={pos} want_inputs={list(exp_idx)} "
                            + " ".join(f"{k}={v!r}" for k, v in info.items()))
        return out

    def sub_multiset(self, out, what):
        got = Counter(fz_interaction(o) for o in out)
        have = Counter(self.snap)
        extra = got - have
        require(not extra, f"{what}: output holds interactions that are not (distinct) input interactions",
                extra=[show(e) for e in extra.elements()][:5], N=self.n)

# =============================================================================================== strategies
def lengths(tier):
    top = 12 if tier == "quick" else 40
    return st.one_of(st.sampled_from([0, 1, 2, 3, 4]), st.integers(0, top), st.integers(0, 8))

def around(n, lo=0, span=3):
    """counts at and across the boundary n"""
    return st.one_of(st.sampled_from(sorted({max(lo, n - 1), max(lo, n), n + 1, lo, lo + 1})), st.integers(lo, n + span))

SEEDS = st.one_of(st.sampled_from([0, 1, 2, 3, 7]), st.integers(0, 50), st.integers(0, 2 ** 31), st.integers(2 ** 30 - 2, 2 ** 30 + 2),
                  st.integers(2 ** 52, 2 ** 54))
FSEEDS = st.one_of(SEEDS, SEEDS, st.sampled_from([1.0, 2.0, 1.5, 0.25, 1e3, 9.63]))

class Digits:
    """mixed-radix reader of one Hypothesis-drawn integer (one draw per row keeps generation cheap and still shrinks:
    smaller integers select earlier entries of every pool)"""
    def __init__(self, code): self.c = code
    def upto(self, k):
        self.c, r = divmod(self.c, k)
        return r
    def pick(self, seq): return seq[self.upto(len(seq))]

CODES = st.integers(0, 2 ** 48 - 1)

@st.composite
def seqs(draw, tier, ctx_kinds=("none", "num", "str", "list", "tuple", "head", "sparse"), need_actions=False, n=None, kinds=None):
    if n is None: n = draw(lengths(tier))
    kind = draw(st.sampled_from(kinds or ["sim", "sim", "log", "log", "logfull", "gnd"]))
    ctx = draw(st.sampled_from(ctx_kinds))
    e = Digits(draw(CODES))
    rwd = e.pick(["list", "list", "binary", "discrete", "fn"])
    seq = {"kind": kind, "ctx": ctx, "rwd": rwd, "tag": e.upto(4) > 0, "it": e.upto(2) == 1,
           "log_actions": need_actions or e.upto(2) == 1, "log_prob": e.upto(2) == 1}
    # context layout of the environment
    if ctx in ("list", "tuple", "head"):
        d = e.pick([1, 2, 3, 1] if ctx == "head" else [1, 2, 3, 0])
        seq["cols"] = [e.pick(["num", "num", "str"]) for _ in range(d)]
    elif ctx == "sparse":
        seq["keys"] = e.pick([SKEYS, SKEYS, IKEYS])
    str_actions = e.upto(2) == 1
    fixed_k = e.pick([None, None, 1, 2, 3])
    nums = NUMS[:4] if e.upto(2) else NUMS    # few distinct values -> ties
    mixed_keys = e.upto(3) == 1               # interactions of one environment whose keys were inserted in different orders
    rows = []
    for code in draw(st.lists(CODES, min_size=n, max_size=n)):
        r = Digits(code)
        if ctx == "none": c = None
        elif ctx == "num": c = r.pick(nums)
        elif ctx == "str": c = r.pick(STRS)
        elif ctx == "sparse":
            mask = r.pick([0, 1, 2, 4, 8, 3, 5, 6, 9, 10, 12, 7, 11, 13, 14, 15])
            c = {k: r.pick(nums) for b, k in enumerate(seq["keys"]) if mask >> b & 1}
        else:
            c = [r.pick(nums if t == "num" else STRS[:4]) for t in seq["cols"]]
        k = fixed_k or 1 + r.upto(4)
        acts = (["x", "y", "z", "w"] if str_actions else [1, 2, 3, 4])[:k]
        if r.upto(2): acts = acts[::-1]
        row = {"c": c, "a": acts}
        if kind != "log":
            if rwd == "binary": row["r"] = [r.upto(4), r.upto(2)]
            elif rwd == "fn": row["r"] = [r.upto(3)]
            else: row["r"] = [r.pick([0, 1, 0.5, 0.25]) for _ in acts]
        if kind == "gnd":
            row["fb"] = [r.pick([0, 1, 2]) for _ in acts]
            row["u"] = r.upto(4)
        if kind in ("log", "logfull"):
            row["la"] = r.upto(4)
            row["lr"] = r.pick([0, 1, 0.5, -1.0])
            row["p"] = r.pick([0.25, 0.5, 1.0])
        if mixed_keys and r.upto(2): row["ko"] = 1 + r.upto(5)
        rows.append(row)
    seq["rows"] = rows
    return seq

def seq_classes(seq):
    n = len(seq["rows"])
    return [f"kind={seq['kind']}", f"ctx={seq['ctx']}", "N=0" if n == 0 else "N=1" if n == 1 else "N=2-4" if n <= 4 else "N>=5",
            f"input={'iterator' if seq['it'] else 'list'}", f"rewards={seq['rwd']}" if seq["kind"] != "log" else "rewards=n/a",
            f"key-order={'mixed' if len({r.get('ko', 0) for r in seq['rows']}) > 1 else 'uniform'}"]

def sample_view(case):
    seq = case["seq"]
    view = {k: v for k, v in case.items() if k != "seq"}
    view["seq"] = {k: v for k, v in seq.items() if k != "rows"}
    view["seq"]["N"] = len(seq["rows"])
    view["seq"]["contexts"] = [r["c"] for r in seq["rows"]][:12]
    if any(r.get("ko") for r in seq["rows"]): view["seq"]["key_orders"] = [r.get("ko", 0) for r in seq["rows"]][:12]
    return view

# =============================================================================================== order: Shuffle, Riffle, Sort
def sort_key_values(seq, keys):
    """the key tuple the Sort docstring promises, from the descriptor"""
    out = []
    for row in seq["rows"]:
        c = row["c"]
        if not keys: out.append(tuple(c))
        elif seq["ctx"] == "sparse": out.append(tuple(c.get(k, 0) for k in keys))
        elif seq["ctx"] == "head": out.append(tuple(c[k] if isinstance(k, int) else c[HEADERS.index(k)] for k in keys))
        else: out.append(tuple(c[k] for k in keys))
    return out

def sort_args(keys, form):
    if form == "args": return tuple(keys)
    if form == "list": return (list(keys),)
    if form == "tuple": return (tuple(keys),)
    if form == "mixed": return tuple([keys[0]] + ([list(keys[1:])] if len(keys) > 1 else []))
    raise ValueError(form)

def run_order(case):
    seq, f = case["seq"], case["f"]
    fed = Fed(seq)
    n = fed.n
    if f["op"] == "shuffle":
        seed = f["seed"]
        eff = seed * 3.21 if is_logged(seq) and n > 0 else seed
        exp = ref_shuffle(n, eff)
        filt = F.Shuffle(seed)
        require(filt.params == {"shuffle_seed": seed}, "Shuffle.params", params=filt.params)
        out = fed.expect(filt.filter(fed.feed()), exp, "Shuffle vs Durstenfeld/LCG model", seed=seed, logged=is_logged(seq))
        fed.check_untouched("Shuffle")
        out2 = list(F.Shuffle(seed).filter(fed.feed()))
        require([id(o) for o in out2] == [id(o) for o in out] or [fz_interaction(o) for o in out2] == [fz_interaction(o) for o in out],
                "Shuffle: two fresh instances with the same seed disagree", seed=seed)
        fed.expect(filt.filter(fed.feed()), exp, "Shuffle, second complete read of the same instance", seed=seed)
        require(filt.params == {"shuffle_seed": seed}, "Shuffle.params after reading", params=filt.params)
    elif f["op"] == "riffle":
        spacing, seed = f["spacing"], f["seed"]
        exp = ref_riffle(n, spacing, seed)
        filt = F.Riffle(spacing, seed)
        require(filt.params == {"riffle_spacing": spacing, "riffle_seed": seed}, "Riffle.params", params=filt.params)
        fed.expect(filt.filter(fed.feed()), exp, "Riffle vs pop/insert LCG model", spacing=spacing, seed=seed)
        fed.check_untouched("Riffle")
        fed.expect(F.Riffle(spacing, seed).filter(fed.feed()), exp, "Riffle, fresh instance with the same seed", spacing=spacing, seed=seed)
        fed.expect(filt.filter(fed.feed()), exp, "Riffle, second complete read of the same instance", spacing=spacing, seed=seed)
    elif f["op"] == "sort":
        keys = list(f["keys"])
        kv = sort_key_values(seq, keys)
        exp = sorted(range(n), key=lambda i: kv[i])
        filt = F.Sort(*sort_args(keys, f["form"]))
        require(filt.params == {"sort_keys": keys or "*"}, "Sort.params", params=filt.params, keys=keys)
        fed.expect(filt.filter(fed.feed()), exp, "Sort vs stable sorted()", keys=keys, form=f["form"], key_values=kv)
        fed.check_untouched("Sort")
        fed.expect(filt.filter(fed.feed()), exp, "Sort, second complete read of the same instance", keys=keys)
    else:
        raise ValueError(f["op"])

@st.composite
def order_cases(draw, tier):
    op = draw(st.sampled_from(["shuffle", "shuffle", "riffle", "sort", "sort"]))
    if op == "shuffle":
        seq = draw(seqs(tier))
        return {"seq": seq, "f": {"op": op, "seed": draw(SEEDS)}}
    if op == "riffle":
        seq = draw(seqs(tier))
        n = len(seq["rows"])
        spacing = draw(st.one_of(st.sampled_from([1, 2, 3]), st.integers(1, max(1, n + 1)), st.sampled_from([0, 1])))
        return {"seq": seq, "f": {"op": op, "spacing": spacing, "seed": draw(FSEEDS)}}
    seq = draw(seqs(tier, ctx_kinds=("list", "tuple", "head", "sparse", "list")))
    ctx = seq["ctx"]
    if ctx == "sparse":
        pool = list(seq["keys"]) + (["zz"] if seq["keys"] is SKEYS or seq["keys"] == SKEYS else [9])
        keys = draw(st.lists(st.sampled_from(pool), min_size=1, max_size=3, unique=True))
    else:
        d = len(seq["cols"])
        if d == 0:
            keys = []
        else:
            pool = list(range(d)) + (HEADERS[:d] if ctx == "head" else [])
            keys = draw(st.lists(st.sampled_from(pool), min_size=0, max_size=3, unique=True))
    form = draw(st.sampled_from(["args", "list", "tuple", "mixed"])) if keys else "args"
    return {"seq": seq, "f": {"op": op, "keys": keys, "form": form}}

def order_nontrivial(case):
    seq, f = case["seq"], case["f"]
    n = len(seq["rows"])
    if n < 2: return False
    if f["op"] == "shuffle": return ref_shuffle(n, f["seed"] * 3.21 if is_logged(seq) else f["seed"]) != list(range(n))
    if f["op"] == "riffle": return ref_riffle(n, f["spacing"], f["seed"]) != list(range(n))
    kv = sort_key_values(seq, list(f["keys"]))
    return sorted(range(n), key=lambda i: kv[i]) != list(range(n)) and len(set(kv)) < n   # reorders and has ties

def order_classes(case):
    seq, f = case["seq"], case["f"]
    out = [f"op={f['op']}"] + seq_classes(seq)
    n = len(seq["rows"])
    if f["op"] == "shuffle":
        out.append(f"shuffle-logged={is_logged(seq)}")
        out.append("seed>=2**30" if f["seed"] >= 2 ** 30 else "seed=0" if f["seed"] == 0 else "seed-small")
    if f["op"] == "riffle":
        out.append("riffle-moves=%d" % min(3, n // (f["spacing"] + 1)))
        out.append(f"riffle-seed={'float' if isinstance(f['seed'], float) else 'int'}")
    if f["op"] == "sort":
        kv = sort_key_values(seq, list(f["keys"]))
        out.append(f"sort-ties={len(set(kv)) < n}")
        out.append(f"sort-keys={'none' if not f['keys'] else 'names' if any(isinstance(k, str) for k in f['keys']) else 'indices'}")
        out.append(f"sort-form={f['form']}")
    return out

# =============================================================================================== select: Take, Slice, Reservoir
RES_SEEDS = [0, 1, 2, 3, 4, 5, 6, 7, 8, 9, 10, 11]

def run_select(case):
    seq, f = case["seq"], case["f"]
    fed = Fed(seq)
    n = fed.n
    if f["op"] == "take":
        count, strict = f["count"], f["strict"]
        exp = list(range(n))[:count]
        if strict and n < count: exp = []
        filt = F.Take(count, strict) if f["pass_strict"] else F.Take(count)
        require(filt.params == {"take": count}, "Take.params", params=filt.params)
        fed.expect(filt.filter(fed.feed()), exp, "Take vs prefix model", count=count, strict=strict)
        fed.check_untouched("Take")
    elif f["op"] == "slice":
        start, stop, step = f["start"], f["stop"], f["step"]
        exp = list(range(n))[start:stop:step]
        filt = F.Slice(start, stop, step) if f["pass_step"] else F.Slice(start, stop)
        want_params = {"slice_start": start, "slice_stop": stop}
        if step != 1: want_params["slice_step"] = step
        require(filt.params == want_params, "Slice.params", params=filt.params)
        fed.expect(filt.filter(fed.feed()), exp, "Slice vs slicing model", start=start, stop=stop, step=step)
        fed.check_untouched("Slice")
    elif f["op"] == "reservoir":
        count, strict, seed = f["count"], f["strict"], f["seed"]
        make = lambda s: F.Reservoir(count, strict=strict, seed=s) if (strict or f["kw"]) else F.Reservoir(count, seed=s)
        filt = make(seed)
        require(filt.params == {"reservoir_count": count, "reservoir_seed": seed}, "Reservoir.params", params=filt.params)
        out = list(filt.filter(fed.feed()))
        want_len = n if count is None else (0 if (strict and n < count) else min(count, n))
        require(len(out) == want_len, "Reservoir: wrong number of interactions", got=len(out), want=want_len, N=n, count=count, strict=strict, seed=seed)
        fed.sub_multiset(out, "Reservoir")
        fed.check_untouched("Reservoir")
        pos = fed.positions(out)
        if all(p is not None for p in pos):
            require(len(set(pos)) == len(pos), "Reservoir: the same input interaction came out twice", got_inputs=pos, N=n, count=count, seed=seed)
        out2 = list(make(seed).filter(fed.feed()))
        require([fz_interaction(o) for o in out2] == [fz_interaction(o) for o in out],
                "Reservoir: two fresh instances with the same seed disagree", seed=seed, first=pos, second=fed.positions(out2))
        out3 = list(filt.filter(fed.feed()))
        require([fz_interaction(o) for o in out3] == [fz_interaction(o) for o in out],
                "Reservoir: second complete read of the same instance differs (the sample is not determined by the seed alone)", seed=seed, first=pos, second=fed.positions(out3))
        if count is not None and 1 <= count < n and seq["tag"]:
            samples = set()
            for s in RES_SEEDS:
                samples.add(tuple(sorted(p for p in fed.positions(list(make(s).filter(fed.feed()))) if p is not None)))
            require(len(samples) >= 2, "Reservoir: every seed gives the same sample (the seed is ignored)", N=n, count=count, seeds=RES_SEEDS, sample=sorted(samples))
    else:
        raise ValueError(f["op"])

@st.composite
def select_cases(draw, tier):
    op = draw(st.sampled_from(["take", "slice", "reservoir", "reservoir"]))
    seq = draw(seqs(tier))
    n = len(seq["rows"])
    if op == "take":
        count = None if draw(st.integers(0, 5)) == 3 else draw(around(n))
        strict = False if count is None else draw(st.booleans())
        return {"seq": seq, "f": {"op": op, "count": count, "strict": strict, "pass_strict": strict or draw(st.booleans())}}
    if op == "slice":
        start = draw(st.one_of(st.none(), around(n, span=2), st.integers(0, 3)))
        stop = draw(st.one_of(st.none(), around(n), around(n)))
        step = draw(st.sampled_from([1, 1, 2, 3, 4, max(1, n), n + 1]))
        return {"seq": seq, "f": {"op": op, "start": start, "stop": stop, "step": step, "pass_step": step != 1 or draw(st.booleans())}}
    count = None if draw(st.integers(0, 6)) == 3 else draw(st.one_of(around(n), around(n), st.integers(0, max(1, n // 2))))
    strict = False if count is None else draw(st.booleans())
    return {"seq": seq, "f": {"op": op, "count": count, "strict": strict, "seed": draw(FSEEDS), "kw": draw(st.booleans())}}

def select_nontrivial(case):
    f, n = case["f"], len(case["seq"]["rows"])
    if n < 2: return False
    if f["op"] == "take": return f["count"] is not None and f["count"] >= n - 1
    if f["op"] == "slice":
        sel = list(range(n))[f["start"]:f["stop"]:f["step"]]
        return f["step"] > 1 or len(sel) == 0 or (f["stop"] is not None and f["stop"] >= n) or (f["start"] or 0) >= n - 1
    return f["count"] is not None and f["count"] >= 1     # a real sample or the count >= N boundary

def select_classes(case):
    seq, f = case["seq"], case["f"]
    n = len(seq["rows"])
    out = [f"op={f['op']}"] + seq_classes(seq)
    rel = lambda c: "None" if c is None else "0" if c == 0 else "<N" if c < n else "=N" if c == n else ">N"
    if f["op"] == "take": out += [f"take-count{rel(f['count'])}", f"take-strict={f['strict']}"]
    if f["op"] == "slice": out += [f"slice-start{rel(f['start'])}", f"slice-stop{rel(f['stop'])}", f"slice-step{'=1' if f['step'] == 1 else '>1'}"]
    if f["op"] == "reservoir": out += [f"reservoir-count{rel(f['count'])}", f"reservoir-strict={f['strict']}",
                                       f"reservoir-seed={'float' if isinstance(f['seed'], float) else 'int'}"]
    return out

# =============================================================================================== where
def in_bounds(v, b):
    if b is None: return True
    lo, hi = (b[0], b[1]) if isinstance(b, (list, tuple)) else (b, b)
    return (lo is None or lo <= v) and (hi is None or v <= hi)

def feature_counts(seq, row):
    """the feature counts a reader of the docs could attribute to this context"""
    c = row["c"]
    k = seq["ctx"]
    if k == "none": return {0}
    if k == "num": return {1}
    if k == "str": return {1} if c else {0, 1}    # an empty string may be read as 'no feature'
    if k == "sparse": return {len(c), sum(1 for v in c.values() if v != 0)}
    return {len(c)}

def bound_arg(b, form):
    if b is None or isinstance(b, int): return b
    return tuple(b) if form == "tuple" else list(b)

def where_check(fed, out, seq, f, kw, what):
    """the bounds model for ONE environment: whatever the filter object has seen before"""
    n = fed.n
    keep_rows = [i for i, r in enumerate(seq["rows"]) if f["n_actions"] is None or in_bounds(len(r["a"]), f["n_actions"])]
    if n == 0:
        fed.expect(out, [], what + "Where on an empty environment", **kw)
        return
    if not in_bounds(n, f["n_interactions"]):
        fed.expect(out, [], what + "Where: interaction count out of bounds, the environment must be dropped", **kw)
        return
    fits = [in_bounds(c, f["n_features"]) for r in seq["rows"] for c in feature_counts(seq, r)]
    if all(fits):
        fed.expect(out, keep_rows, what + "Where: environment within bounds, interactions selected by action count", **kw)
    elif not any(fits):
        fed.expect(out, [], what + "Where: feature count out of bounds, the environment must be dropped", **kw)
    else:   # ambiguous feature count: all or nothing
        if len(out) != 0:
            fed.expect(out, keep_rows, what + "Where: environment passed through, interactions selected by action count", **kw)

def where_seqs(case):
    """the environments one Where object is applied to: the generated one and (optionally) a window of its rows of another length"""
    seq = case["seq"]
    out = [seq]
    if case.get("other") is not None:
        start, length = case["other"]
        rows = seq["rows"]
        out.append(dict(seq, rows=[rows[(start + i) % len(rows)] for i in range(length)] if rows else [], tag=True, tag0=100))
    return out

def run_where(case):
    f = case["f"]
    kw, want_params = {}, {}
    for name in ("n_interactions", "n_actions", "n_features"):
        if f[name] is not None:
            kw[name] = bound_arg(f[name], f["form"])
            want_params["where_" + name] = kw[name]
    filt = F.Where(**kw)
    require(filt.params == want_params, "Where.params", params=filt.params)
    envs = where_seqs(case)
    feds = [Fed(s) for s in envs]
    order = [k % len(envs) for k in case.get("order", [0])]
    for t, k in enumerate(order):     # ONE filter object, applied in sequence to (different) environments
        out = list(filt.filter(feds[k].feed()))
        feds[k].check_untouched("Where")
        what = "" if len(order) == 1 else f"[same Where object, call {t} of {order} on environment {k} with {feds[k].n} interactions] "
        where_check(feds[k], out, envs[k], f, kw, what)
    require(filt.params == want_params, "Where.params after filtering", params=filt.params)

def where_outcome(seq, f):
    n = len(seq["rows"])
    if n == 0: return "empty"
    if not in_bounds(n, f["n_interactions"]): return "dropped"
    fits = [in_bounds(c, f["n_features"]) for r in seq["rows"] for c in feature_counts(seq, r)]
    return "kept" if all(fits) else "dropped" if not any(fits) else "ambiguous"

@st.composite
def bounds(draw, pivots):
    p = draw(st.sampled_from(pivots))
    kind = draw(st.sampled_from(["exact", "min", "max", "both", "both", "both"]))
    near = st.integers(max(0, p - 2), p + 2)
    if kind == "exact": return draw(near)
    if kind == "min": return [draw(near), None]
    if kind == "max": return [None, draw(near)]
    lo = draw(st.one_of(near, st.integers(0, p)))
    hi = draw(st.one_of(near, st.integers(p, p + 8), st.integers(lo, lo + 3)))
    return [lo, hi]

@st.composite
def where_cases(draw, tier):
    seq = draw(seqs(tier, need_actions=True))
    n = len(seq["rows"])
    which = draw(st.sampled_from(["i", "i", "i", "a", "f", "ia", "if", "af", "iaf", ""]))
    f = {"n_interactions": None, "n_actions": None, "n_features": None, "form": draw(st.sampled_from(["tuple", "tuple", "list"]))}
    if "i" in which: f["n_interactions"] = draw(bounds([n, n, max(0, n // 2)]))
    if "a" in which: f["n_actions"] = draw(bounds(sorted({len(r["a"]) for r in seq["rows"]} or {2})))
    if "f" in which:
        fc = sorted({c for r in seq["rows"] for c in feature_counts(seq, r)} or {1})
        f["n_features"] = draw(bounds(fc))
    case = {"seq": seq, "f": f}
    mode = draw(st.integers(0, 4))     # 1,2,3: the same Where object also meets a second environment of another length; 4: read twice
    if mode in (1, 2, 3) and n > 0:
        top = 12 if tier == "quick" else 40
        opposite = [m for m in range(1, top + 1) if in_bounds(m, f["n_interactions"]) != in_bounds(n, f["n_interactions"])]
        if opposite and mode != 3:     # by construction on the other side of the interaction bound
            near = sorted(opposite, key=lambda m: abs(m - n))[:4]
            length = near[draw(st.integers(0, len(near) - 1))]
        else:
            length = draw(st.one_of(around(n), st.integers(0, top)))
        case["other"] = [draw(st.integers(0, n - 1)), length]
        case["order"] = [[1, 0], [0, 1], [1, 0, 1], [0, 1, 0], [1, 1, 0], [0, 0, 1]][draw(st.integers(0, 5))]
    elif mode == 4:
        case["order"] = [0, 0]
    return case

def where_nontrivial(case):
    seq, f = case["seq"], case["f"]
    if len(where_seqs(case)) > 1 and len({where_outcome(s, f) for s in where_seqs(case)} & {"kept", "dropped"}) == 2: return True
    n = len(seq["rows"])
    b = f["n_interactions"]
    two_sided = isinstance(b, list) and b[0] is not None and b[1] is not None
    return n >= 2 and (two_sided or f["n_actions"] is not None or f["n_features"] is not None)

def where_classes(case):
    seq, f = case["seq"], case["f"]
    n = len(seq["rows"])
    out = seq_classes(seq)
    envs = where_seqs(case)
    if len(envs) > 1:
        oc = [where_outcome(s, f) for s in envs]
        first = case["order"][0] % len(envs)
        out.append("same-object-two-environments=" + ("different-outcomes" if set(oc) >= {"kept", "dropped"} else "same-outcome"))
        if set(oc) >= {"kept", "dropped"}: out.append(f"same-object-first-read={oc[first]}")
    else:
        out.append("same-object-two-environments=no" + ("(read twice)" if len(case.get("order", [0])) > 1 else ""))
    def shape(b): return "none" if b is None else "exact" if isinstance(b, int) else "min" if b[1] is None else "max" if b[0] is None else "both"
    out += [f"n_interactions={shape(f['n_interactions'])}", f"n_actions={shape(f['n_actions'])}", f"n_features={shape(f['n_features'])}"]
    b = f["n_interactions"]
    if b is not None and n:
        lo, hi = (b, b) if isinstance(b, int) else b
        out.append("N-vs-bounds=" + ("below" if lo is not None and n < lo else "above" if hi is not None and n > hi else "inside"))
    if n:
        fits = [in_bounds(c, f["n_features"]) for r in seq["rows"] for c in feature_counts(seq, r)]
        out.append("features=" + ("in" if all(fits) else "out" if not any(fits) else "ambiguous"))
        kept = sum(1 for r in seq["rows"] if in_bounds(len(r["a"]), f["n_actions"]))
        out.append("actions-kept=" + ("all" if kept == n else "none" if kept == 0 else "some"))
    return out

# =============================================================================================== identities and batching
def make_inner(g):
    op = g["op"]
    if op == "identity": return F.Identity()
    if op == "shuffle": return F.Shuffle(g["seed"])
    if op == "riffle": return F.Riffle(g["spacing"], g["seed"])
    if op == "take": return F.Take(g["count"], g["strict"])
    if op == "slice": return F.Slice(g["start"], g["stop"], g["step"])
    if op == "reservoir": return F.Reservoir(g["count"], strict=g["strict"], seed=g["seed"])
    if op == "sort": return F.Sort(*g["keys"])
    if op == "where": return F.Where(n_interactions=bound_arg(g["n_interactions"], "tuple"), n_actions=bound_arg(g["n_actions"], "tuple"))
    raise ValueError(op)

def run_identity(case):
    seq, f = case["seq"], case["f"]
    fed = Fed(seq)
    n = fed.n
    ident = list(range(n))
    op = f["op"]
    if op == "identity":
        fed.expect(F.Identity().filter(fed.feed()), ident, "Identity")
        require(F.Identity().params == {}, "Identity.params")
    elif op == "chunk":
        fed.expect(F.Chunk().filter(fed.feed()), ident, "Chunk")
    elif op == "params":
        p = dict(f["params"])
        filt = F.Params(p)
        fed.expect(filt.filter(fed.feed()), ident, "Params")
        require(dict(filt.params) == p, "Params.params", params=filt.params)
    elif op == "cache":
        filt = F.Cache(f["n_slice"]) if f["n_slice"] is not None else F.Cache()
        fed.expect(filt.filter(fed.feed()), ident, "Cache, first read", n_slice=f["n_slice"])
        fed.check_untouched("Cache")
        fed.expect(filt.filter(fed.feed()), ident, "Cache, second read", n_slice=f["n_slice"])
        fed.expect(filt.filter(iter(())), ident, "Cache, read after the source is gone", n_slice=f["n_slice"])
        # a reader that stops early and closes its generator must not freeze a partial cache
        filt2 = F.Cache(f["n_slice"]) if f["n_slice"] is not None else F.Cache()
        k = (3 * (f["n_slice"] or 1) + 1) % (n + 1)
        g = iter(filt2.filter(fed.feed()))
        for _ in range(k): next(g)
        g.close()
        fed.expect(filt2.filter(fed.feed()), ident, "Cache, complete read after an abandoned partial read", n_slice=f["n_slice"], abandoned_after=k)
        # a generated history on one Cache object; readers may edit the interaction mappings they were handed (every read hands out
        # private shallow copies): set a field, delete a field, add a field - nothing deeper than the mapping itself
        hist = [list(h) for h in f.get("hist", [])]
        if hist:
            filt3 = F.Cache(f["n_slice"]) if f["n_slice"] is not None else F.Cache()
            for t, step in enumerate(hist):
                what = f"Cache history {hist}, step {t}"
                g = iter(filt3.filter(fed.feed()))
                if step[0] in ("full", "mut"):
                    out = fed.expect(g, ident, what, n_slice=f["n_slice"])
                else:
                    k = step[1] % (n + 1)
                    out = fed.expect([next(g) for _ in range(k)], ident[:k], what + " (partial read)", n_slice=f["n_slice"])
                    g.close()
                if step[0] in ("mut", "partialmut"):
                    for o in out:
                        o["context"] = "edited by the reader"
                        o.pop(next(k for k in o if k != "context"), None)
                        o["added by the reader"] = t
                fed.check_untouched(what + ": Cache (the reader edited only the mappings it was handed)")
            fed.expect(filt3.filter(fed.feed()), ident, f"Cache, complete read after the history {hist}", n_slice=f["n_slice"])
            fed.check_untouched(f"Cache history {hist}")
    elif op == "batch":
        size = f["size"]
        b = F.Batch(size)
        require(b.params == {"batch_size": size or None, "batch_type": "list"}, "Batch.params", params=b.params)
        batched = list(b.filter(fed.feed()))
        if size and n:
            require(len(batched) == -(-n // size), "Batch: wrong number of batches", got=len(batched), N=n, size=size)
            sizes = [len(x["context"]) for x in batched]
            require(sizes == [size] * (n // size) + ([n % size] if n % size else []), "Batch: wrong batch sizes", sizes=sizes, N=n, size=size)
            require(all(set(x.keys()) == set(fed.ins[0].keys()) for x in batched), "Batch: a batched interaction has other fields than the interactions")
        fed.check_untouched("Batch")
        fed.expect(F.Unbatch().filter(iter(batched) if seq["it"] else batched), ident, "Batch -> Unbatch", size=size)
        fed.check_untouched("Unbatch")
    elif op == "unbatch":
        fed.expect(F.Unbatch().filter(fed.feed()), ident, "Unbatch of unbatched interactions")
    elif op == "batchsafe":
        g = f["inner"]
        direct = [fz_interaction(o) for o in make_inner(g).filter(list(fed.ins))]
        want = [fed.snap.index(d) if fed.snap.count(d) == 1 else None for d in direct]
        if f["size"] is None:
            out = list(F.BatchSafe(make_inner(g)).filter(fed.feed()))
        else:
            batched = list(F.Batch(f["size"]).filter(fed.feed()))
            mid = list(F.BatchSafe(make_inner(g)).filter(iter(batched) if seq["it"] else batched))
            if f["size"] and mid:
                require(all(hasattr(v, "is_batch") for v in mid[0].values()), "BatchSafe over batched input must return batched interactions", size=f["size"])
            out = list(F.Unbatch().filter(mid))
        got = [fz_interaction(o) for o in out]
        require(got == direct, "BatchSafe(F) differs from F on the same interactions", inner=g, size=f["size"], N=n,
                got_inputs=fed.positions(out), want_inputs=want)
        fed.check_untouched("BatchSafe")
    else:
        raise ValueError(op)

@st.composite
def inner_filters(draw, seq):
    n = len(seq["rows"])
    ops = ["take", "identity", "shuffle", "riffle", "slice", "slice", "reservoir", "reservoir"]
    if has_actions(seq): ops.append("where")
    if seq["ctx"] in ("list", "tuple", "head") and seq.get("cols"): ops += ["sort", "sort", "sort"]
    op = ops[draw(st.integers(0, len(ops) - 1))]
    if op == "identity": return {"op": op}
    if op == "shuffle": return {"op": op, "seed": draw(st.integers(0, 20))}
    if op == "riffle": return {"op": op, "spacing": draw(st.integers(1, 3)), "seed": draw(st.integers(0, 20))}
    if op == "take":
        c = draw(around(n)); return {"op": op, "count": c, "strict": draw(st.booleans())}
    if op == "slice": return {"op": op, "start": draw(st.one_of(st.none(), st.integers(0, 3))), "stop": draw(st.one_of(st.none(), around(n))), "step": draw(st.sampled_from([1, 2, 3]))}
    if op == "reservoir": return {"op": op, "count": draw(st.one_of(st.none(), around(n))), "strict": False, "seed": draw(st.integers(0, 20))}
    if op == "sort": return {"op": op, "keys": draw(st.lists(st.integers(0, len(seq["cols"]) - 1), min_size=1, max_size=2, unique=True))}
    return {"op": op, "n_interactions": draw(st.one_of(st.none(), bounds([n]))),
            "n_actions": draw(bounds(sorted({len(r["a"]) for r in seq["rows"]} or {2})))}

@st.composite
def identity_cases(draw, tier):
    op = draw(st.sampled_from(["identity", "chunk", "params", "cache", "cache", "batch", "batch", "batch", "unbatch", "batchsafe", "batchsafe", "batchsafe"]))
    seq = draw(seqs(tier))
    n = len(seq["rows"])
    f = {"op": op}
    if op == "params":
        f["params"] = draw(st.dictionaries(st.sampled_from(["a", "b", "env"]), st.one_of(st.integers(0, 3), st.text("xy", max_size=2)), max_size=2))
    if op == "cache":
        f["n_slice"] = draw(st.one_of(st.none(), st.integers(1, 4), around(n, lo=1), st.just(25)))
        steps = draw(st.lists(st.integers(0, 5 * (n + 1) - 1), min_size=1, max_size=4))
        f["hist"] = [[["mut"], ["full"], ["mut"], ["partial", c // 5], ["partialmut", c // 5]][c % 5] for c in steps]
    if op == "batch":
        f["size"] = draw(st.one_of(st.sampled_from([None, 0, 1, 2, 3]), around(n, lo=1)))
    if op == "batchsafe":
        f["size"] = draw(st.one_of(st.sampled_from([None, 1, 2, 3]), around(n, lo=1)))
        f["inner"] = draw(inner_filters(seq))
    return {"seq": seq, "f": f}

def identity_nontrivial(case):
    f, n = case["f"], len(case["seq"]["rows"])
    if n < 2: return False
    if f["op"] == "cache": return True
    if f["op"] == "batch": return bool(f["size"])
    if f["op"] == "batchsafe": return f["size"] is not None and f["inner"]["op"] != "identity"
    return False

def identity_classes(case):
    seq, f = case["seq"], case["f"]
    n = len(seq["rows"])
    out = [f"op={f['op']}"] + seq_classes(seq)
    if f["op"] in ("batch", "batchsafe"):
        s = f["size"]
        out.append("batch-size=" + ("none" if not s else "1" if s == 1 else ">=N" if s >= n else "divides-N" if n % s == 0 else "ragged"))
    if f["op"] == "batchsafe": out.append("batchsafe-inner=" + f["inner"]["op"])
    if f["op"] == "cache":
        s = f["n_slice"]
        out.append("cache-slice=" + ("default" if s is None else ">=N" if s >= n else "divides-N" if n and n % s == 0 else "ragged"))
        kinds = {h[0] for h in f.get("hist", [])}
        out.append("cache-history=" + ("none" if not kinds else "reader-edits" if kinds & {"mut", "partialmut"} else "reads-only"))
        if kinds & {"partial", "partialmut"}: out.append("cache-history-has-partial-read")
    return out

# =============================================================================================== Environments shortcuts
class ListEnvironment(Environment):
    def __init__(self, seq, member=0): self._seq, self._member = seq, member
    @property
    def params(self): return {"env": "list", "member": self._member}
    def read(self): return build(self._seq)

def finalized(interactions):
    return [fz_interaction(o) for o in F.Finalize().filter(interactions)]

def member_seqs(case):
    """the environments held by the Environments object: the generated sequence plus 0-2 further members of the same layout,
    each a different window (start, length) of the generated rows with its own tag range"""
    seq = dict(case["seq"], it=False)
    out = [seq]
    rows = seq["rows"]
    for j, (start, length) in enumerate(case.get("members", []), 1):
        mine = [rows[(start + i) % len(rows)] for i in range(length)] if rows else []
        out.append(dict(seq, rows=mine, tag=True, tag0=100 * j))
    if len(out) > 1: out[0] = dict(seq, tag=True)
    return out

def envs_model(seq, f, seed=None):
    """finalized interactions the shortcut must yield for the environment `seq`"""
    n, op = len(seq["rows"]), f["op"]
    ins = build(seq)
    if op == "shuffle": exp = ref_shuffle(n, seed * 3.21 if is_logged(seq) and n > 0 else seed)
    elif op == "take":
        exp = list(range(n))[:f["count"]]
        if f["strict"] and n < f["count"]: exp = []
    elif op == "slice": exp = list(range(n))[f["start"]:f["stop"]:f["step"]]
    elif op == "riffle": exp = ref_riffle(n, f["spacing"], f["seed"])
    elif op == "sort":
        kv = sort_key_values(seq, list(f["keys"]))
        exp = sorted(range(n), key=lambda i: kv[i])
    elif op == "where": exp = list(range(n)) if in_bounds(n, f["n_interactions"]) else []
    elif op == "reservoir":
        direct = list(F.Reservoir(f["count"], strict=f["strict"], seed=seed).filter(ins))
        want_len = 0 if (f["strict"] and n < f["count"]) else min(f["count"], n)
        require(len(direct) == want_len, "Reservoir: wrong number of interactions", got=len(direct), want=want_len, N=n, count=f["count"], strict=f["strict"])
        return finalized(direct)
    elif op in ("cache", "chunk", "params", "batch_unbatch"): exp = list(range(n))
    else: raise ValueError(op)
    return finalized([ins[k] for k in exp])

def run_envs(case):
    CobaContext.logger = NullLogger()
    f = case["f"]
    members = member_seqs(case)
    sources = [ListEnvironment(s, j) for j, s in enumerate(members)]
    base = Environments(sources) if case.get("as_list", True) else Environments(*sources)
    op = f["op"]
    seeds = [None]
    seed_param = None
    if op == "shuffle":
        how, seeds = f["how"], list(f["seeds"])
        if how == "n": envs, seeds = base.shuffle(n=f["n"]), list(range(f["n"]))
        elif how == "seed": envs, seeds = base.shuffle(seeds[0]), seeds[:1]
        elif how == "seedkw": envs, seeds = base.shuffle(seed=seeds[0]), seeds[:1]
        elif how == "seeds": envs = base.shuffle(seeds)
        elif how == "seedskw": envs = base.shuffle(seeds=seeds)
        elif how == "default": envs, seeds = base.shuffle(), [1]
        else: raise ValueError(how)
        seed_param = "shuffle_seed"
    elif op == "reservoir":
        seeds = list(f["seeds"])
        envs = base.reservoir(f["count"], seeds if f["as_list"] else seeds[0], strict=f["strict"]) if f["as_list"] or f["strict"] else base.reservoir(f["count"], seeds[0])
        if not f["as_list"]: seeds = seeds[:1]
        seed_param = "reservoir_seed"
    elif op == "take": envs = base.take(f["count"], f["strict"]) if f["strict"] else base.take(f["count"])
    elif op == "slice":
        if f["stop"] is None and f["step"] == 1: envs = base.slice(f["start"])
        elif f["step"] == 1: envs = base.slice(f["start"], f["stop"])
        else: envs = base.slice(f["start"], f["stop"], f["step"])
    elif op == "riffle": envs = base.riffle(f["spacing"], f["seed"])
    elif op == "sort": envs = base.sort(*sort_args(list(f["keys"]), f["form"]))
    elif op == "where": envs = base.where(n_interactions=bound_arg(f["n_interactions"], "tuple"))
    elif op == "cache": envs = base.cache()
    elif op == "chunk": envs = base.chunk(f["cache"])
    elif op == "params": envs = base.params({"k": 1})
    elif op == "batch_unbatch": envs = base.batch(f["size"]).unbatch()
    else: raise ValueError(op)

    made = list(envs)
    ident = [(e.params.get("member"), e.params.get(seed_param) if seed_param else None) for e in made]
    want_ident = [(j, s) for j in range(len(members)) for s in seeds]
    require(sorted(ident, key=repr) == sorted(want_ident, key=repr),
            f"Environments.{op}(...) must make one environment per member (and seed)", want=want_ident, got=ident, f=f)
    if op == "reservoir":
        require(all(e.params.get("reservoir_count") == f["count"] for e in made), "Environments.reservoir params", params=[e.params for e in made])
    if op == "params":
        require(all(e.params.get("k") == 1 for e in made), "Environments.params must add the params", params=[e.params for e in made])

    # read the environments in the generated order (some more than once), then every one not read yet
    order = [r % len(made) for r in case.get("reads", [])]
    order += [k for k in range(len(made)) if k not in order]
    if "reads" not in case: order = order + order       # single-environment cases of earlier versions: two reads
    seen = set()
    for k in order:
        j, s = ident[k]
        got = finalized(made[k].read())
        want = envs_model(members[j], f, s)
        if got != want:
            own = {tuple(envs_model(m, f, s)): i for i, m in enumerate(members)}
            other = own.get(tuple(got))
            raise Violation(f"Environments.{op}(...): read {'again ' if k in seen else ''}of member {j} differs from the model for its own interactions"
                            + (f" (it equals the model output of member {other})" if other is not None and other != j else "")
                            + f" | f={f!r} seed={s!r} N={len(members[j]['rows'])} got_len={len(got)} want_len={len(want)} read_order={order} "
                            + f"got={[show(g) for g in got][:8]} want={[show(w) for w in want][:8]}")
        seen.add(k)

@st.composite
def envs_cases(draw, tier):
    op = draw(st.sampled_from(["cache", "shuffle", "shuffle", "cache", "take", "slice", "riffle", "sort", "where", "where", "reservoir", "chunk", "params", "batch_unbatch"]))
    if op == "sort":
        seq = draw(seqs(tier, ctx_kinds=("list", "tuple", "sparse")))
        if seq["ctx"] == "sparse": keys = draw(st.lists(st.sampled_from(seq["keys"]), min_size=1, max_size=2, unique=True))
        elif not seq["cols"]: keys = []
        else: keys = draw(st.lists(st.integers(0, len(seq["cols"]) - 1), min_size=0, max_size=2, unique=True))
        f = {"op": op, "keys": keys, "form": draw(st.sampled_from(["args", "list", "mixed"])) if keys else "args"}
    else:
        seq = draw(seqs(tier, ctx_kinds=("none", "num", "list", "tuple", "sparse")))
        f = {"op": op}
    n = len(seq["rows"])
    top = 12 if tier == "quick" else 40
    k = [1, 2, 1, 0][draw(st.integers(0, 3))]      # number of further members: mostly 1 or 2
    members = [[draw(st.integers(0, max(0, n - 1))), draw(st.one_of(around(n), st.integers(0, top)))] for _ in range(k)]
    if op == "shuffle":
        f["how"] = ["seeds", "seed", "seedkw", "n", "seedskw", "default", "default"][draw(st.integers(0, 6))]
        f["seeds"] = draw(st.lists(st.integers(0, 12), min_size=1, max_size=3, unique=True))
        f["n"] = draw(st.integers(1, 3))
    elif op == "take": f.update(count=draw(around(n)), strict=draw(st.booleans()))
    elif op == "slice": f.update(start=draw(st.one_of(st.none(), st.integers(0, 3))), stop=draw(st.one_of(st.none(), around(n))), step=draw(st.sampled_from([1, 1, 2, 3])))
    elif op == "riffle": f.update(spacing=draw(st.integers(1, 4)), seed=draw(st.integers(0, 30)))
    elif op == "where":
        sizes = sorted({x for x in [n] + ([m[1] for m in members] if n else []) if x > 0})
        pick = draw(st.integers(0, 5))
        if len(sizes) >= 2 and pick < 4:    # members on both sides of the bound: the shared Where object must decide per member
            lo, hi = sizes[0], sizes[-1]
            f.update(n_interactions=[[hi, None], [None, lo], [lo + 1, hi], lo][pick])
        else:
            f.update(n_interactions=draw(bounds([n] + [m[1] for m in members])))
    elif op == "reservoir": f.update(count=draw(around(n)), strict=draw(st.booleans()), seeds=draw(st.lists(st.integers(0, 12), min_size=1, max_size=3, unique=True)), as_list=draw(st.booleans()))
    elif op == "chunk": f.update(cache=draw(st.integers(0, 3)) > 0)
    elif op == "batch_unbatch": f.update(size=draw(st.one_of(st.sampled_from([1, 2, 3]), around(n, lo=1))))
    reads = draw(st.lists(st.integers(0, 8), min_size=2, max_size=5))
    return {"seq": seq, "members": members, "reads": reads, "as_list": draw(st.booleans()), "f": f}

def envs_nontrivial(case):
    ms = member_seqs(case)
    sizes = [len(m["rows"]) for m in ms]
    return len(ms) >= 2 and max(sizes) >= 2 and sum(1 for x in sizes if x) >= 2

def envs_classes(case):
    f = case["f"]
    ms = member_seqs(case)
    if f["op"] == "where":
        oc = {in_bounds(len(m["rows"]), f["n_interactions"]) for m in ms if m["rows"]}
        extra = ["where-members=" + ("different-outcomes" if len(oc) == 2 else "same-outcome")]
    else:
        extra = []
    out = [f"op={f['op']}"] + seq_classes(case["seq"])[:3]
    out.append(f"members={len(ms)}")
    out.append("member-lengths=" + ("n/a" if len(ms) < 2 else "equal" if len({len(m["rows"]) for m in ms}) == 1 else "different"))
    reads = case.get("reads", [])
    out.append("read-order=" + ("default" if not reads else "generated-with-repeats" if len(set(reads)) < len(reads) else "generated"))
    if f["op"] == "shuffle": out.append("shuffle-how=" + f["how"])
    return out + extra

# =============================================================================================== the generic pipes filters
def run_pipes(case):
    """coba.pipes.Shuffle/Take/Slice/Reservoir/Cache/Identity on plain item lists (no interaction semantics, no reseeding)"""
    if case["op"] == "reservoir_state":
        return run_reservoir_state(case)
    items, op = list(case["items"]), case["op"]
    n = len(items)
    given = list(items)
    feed = (lambda: iter(given)) if case["it"] else (lambda: given)
    def same(out, exp_idx, what, **info):
        out = list(out)
        want = [items[k] for k in exp_idx]
        require(len(out) == len(want) and all(type(a) is type(b) and a == b for a, b in zip(out, want)), what, got=out, want=want, **info)
    if op == "shuffle":
        same(P.Shuffle(case["seed"]).filter(feed()), ref_shuffle(n, case["seed"]), "pipes.Shuffle vs Durstenfeld/LCG model", seed=case["seed"])
    elif op == "take":
        exp = list(range(n))[:case["count"]]
        if case["strict"] and n < case["count"]: exp = []
        same(P.Take(case["count"], case["strict"]).filter(feed()), exp, "pipes.Take vs prefix model", count=case["count"], strict=case["strict"])
    elif op == "slice":
        same(P.Slice(case["start"], case["stop"], case["step"]).filter(feed()), list(range(n))[case["start"]:case["stop"]:case["step"]],
             "pipes.Slice vs slicing model", start=case["start"], stop=case["stop"], step=case["step"])
    elif op == "reservoir":
        count, strict, seed = case["count"], case["strict"], case["seed"]
        out = list(P.Reservoir(count, strict, seed).filter(feed()))
        want_len = n if count is None else (0 if (strict and n < count) else min(count, n))
        require(len(out) == want_len, "pipes.Reservoir: wrong number of items", got=out, want_len=want_len, N=n, count=count, strict=strict, seed=seed)
        require(not (Counter(out) - Counter(items)), "pipes.Reservoir: output is not a sub-multiset of the input", got=out, items=items)
        require(list(P.Reservoir(count, strict, seed).filter(feed())) == out, "pipes.Reservoir: same seed, different sample", seed=seed)
    elif op == "cache":
        c = P.Cache(case["n_slice"])
        same(c.filter(feed()), range(n), "pipes.Cache first read"); same(c.filter(feed()), range(n), "pipes.Cache second read")
        c2 = P.Cache(case["n_slice"])
        k = (3 * (case["n_slice"] or 1) + 1) % (n + 1)
        g = iter(c2.filter(feed()))
        for _ in range(k): next(g)
        g.close()
        same(c2.filter(feed()), range(n), "pipes.Cache complete read after an abandoned partial read")
    elif op == "identity":
        require(P.Identity().filter(given) is given, "pipes.Identity must return what it is given")
    else:
        raise ValueError(op)
    require(given == items and all(type(a) is type(b) for a, b in zip(given, items)), f"pipes {op}: the caller's list was changed", before=items, after=given)

@st.composite
def pipes_cases(draw, tier):
    if draw(st.integers(0, 5)) == 0:
        return dict(draw(st.sampled_from(STATE_CASES[tier])), op="reservoir_state")
    n = draw(lengths(tier))
    distinct = draw(st.booleans())
    items = list(range(10, 10 + n)) if distinct else [draw(st.sampled_from([0, 1, 1.0, "a", "b", None])) for _ in range(n)]
    op = draw(st.sampled_from(["shuffle", "shuffle", "take", "slice", "reservoir", "reservoir", "cache", "identity"]))
    case = {"items": items, "op": op, "it": draw(st.booleans())}
    if op == "shuffle": case["seed"] = draw(SEEDS)
    if op == "take":
        case["count"] = draw(st.one_of(st.none(), around(n)))
        case["strict"] = False if case["count"] is None else draw(st.booleans())
    if op == "slice": case.update(start=draw(st.one_of(st.none(), around(n, span=2))), stop=draw(st.one_of(st.none(), around(n))), step=draw(st.sampled_from([1, 2, 3, n + 1])))
    if op == "reservoir":
        case["count"] = draw(st.one_of(st.none(), around(n)))
        case["strict"] = False if case["count"] is None else draw(st.booleans())
        case["seed"] = draw(FSEEDS)
    if op == "cache": case["n_slice"] = draw(st.one_of(st.integers(1, 4), around(n, lo=1), st.just(25)))
    return case

def pipes_nontrivial(case):
    if case["op"] == "reservoir_state": return True
    n = len(case["items"])
    if n < 2: return False
    if case["op"] == "shuffle": return ref_shuffle(n, case["seed"]) != list(range(n))
    if case["op"] in ("take", "reservoir"): return case["count"] is not None and case["count"] >= 1
    if case["op"] == "slice": return case["step"] > 1 or (case["stop"] is not None and case["stop"] >= n)
    return case["op"] == "cache"

def pipes_classes(case):
    if case["op"] == "reservoir_state": return ["op=reservoir_state", f"state={case['target']}"]
    n = len(case["items"])
    return [f"op={case['op']}", "N=0" if n == 0 else "N=1" if n == 1 else "N>=2", f"input={'iterator' if case['it'] else 'list'}"]

# =============================================================================================== boundary states of the generator
def run_reservoir_state(case):
    """Reservoir with the seed whose k-th uniform is exactly 0 (or the largest value): still a sample."""
    n, count, k, target = case["n"], case["count"], case["k"], case["target"]
    seed = seed_with_state(k, target)
    ins = [SimulatedInteraction(i, [1, 2], [0, 1]) for i in range(n)]
    out = list(F.Reservoir(count, seed=seed).filter(iter(ins)))
    ids = {id(i) for i in ins}
    require(len(out) == min(count, n) and all(id(o) in ids for o in out) and len({id(o) for o in out}) == len(out),
            "Reservoir at a boundary state of the generator: not min(n,N) distinct input interactions", seed=seed, n=n, count=count,
            got=[o["context"] for o in out])

def reservoir_state_cases(tier):
    top = 12 if tier == "quick" else 30
    for n in range(2, top + 1):
        for count in range(1, min(n, 6)):
            for k in range(1, 3 * 4 + count + 1):
                for target in (0, 2 ** 30 - 1, 1):
                    yield {"n": n, "count": count, "k": k, "target": target}

STATE_CASES = {t: list(reservoir_state_cases(t)) for t in ("quick", "thorough")}

# =============================================================================================== sub-checks
SUBCHECKS = [
    Sub(name="order", run=run_order, strategy=order_cases, nontrivial=order_nontrivial, classes=order_classes, sample_view=sample_view,
        quick=3000, thorough=160000, quick_shards=2,
        what="Shuffle / Riffle / Sort over all interaction and context kinds vs Durstenfeld- and pop/insert-models on an independent LCG "
             "(3.21 reseeding for logged data) and stable sorted(); same seed -> same output; inputs untouched; non-trivial = N>=2 and the "
             "model order differs from the input order (Sort: and key ties exist)"),
    Sub(name="select", run=run_select, strategy=select_cases, nontrivial=select_nontrivial, classes=select_classes, sample_view=sample_view,
        quick=3000, thorough=160000, quick_shards=2,
        what="Take / Slice vs list slicing (strict Take all-or-nothing), Reservoir: min(n,N) distinct inputs, strict n-or-none, seed-determined, "
             "seed-sensitive; non-trivial = N>=2 and count>=N-1 / step>1 / empty or overrunning slice / a real sample"),
    Sub(name="where", run=run_where, strategy=where_cases, nontrivial=where_nontrivial, classes=where_classes, sample_view=sample_view,
        quick=2500, thorough=160000, quick_shards=1,
        what="ONE Where object applied in sequence to one or two environments of different length (both read orders, outcomes differing by construction) "
             "with exact / min / max / two-sided bounds on interaction, feature and action counts vs the bounds model; "
             "non-trivial = N>=2 and a two-sided interaction bound or an action/feature bound"),
    Sub(name="identity", run=run_identity, strategy=identity_cases, nontrivial=identity_nontrivial, classes=identity_classes, sample_view=sample_view,
        quick=2500, thorough=120000, quick_shards=1,
        what="Identity, Chunk, Params, Cache (three reads), Batch->Unbatch for sizes around N, BatchSafe(F) over batched/unbatched input == F; "
             "non-trivial = N>=2 and a Cache, a real batch size or a batched BatchSafe"),
    Sub(name="envs", run=run_envs, strategy=envs_cases, nontrivial=envs_nontrivial, classes=envs_classes, sample_view=sample_view,
        quick=1200, thorough=48000, quick_shards=1,
        what="Environments over 1-3 DIFFERENT generated environments (same layout, different lengths and tag ranges) .shuffle/take/slice/riffle/sort/"
             "where/reservoir/cache/chunk/params/batch().unbatch(): one environment per member and seed, params, and every member - read in a "
             "generated order, some more than once - equals (through Finalize) the model output for ITS OWN interactions (catches one stateful "
             "filter object shared by all members); non-trivial = at least 2 non-empty members, one with N>=2"),
    Sub(name="pipes", run=run_pipes, strategy=pipes_cases, nontrivial=pipes_nontrivial, classes=pipes_classes,
        quick=1500, thorough=64000, quick_shards=1,
        what="coba.pipes.Shuffle/Take/Slice/Reservoir/Cache/Identity on plain item lists and iterators vs the same models; the caller's list is left alone; "
             "one case in six: Reservoir(count<N) with the constructed seed that puts LCG state 0 / 1 / 2**30-1 at one of the first stream positions "
             "must still give min(n,N) distinct inputs"),
]
