"""Child process entry: python -m vlib.worker <json-args> ; writes the shard result to args['out']."""
import sys, json, os, traceback

def main():
    args = json.loads(sys.argv[1])
    from . import core
    try:
        res = core.run_shard(args["prop"], args["sub"], args["tier"], args["seed"], args["n"],
                             args["shard"], args["nshards"], args["budget_s"], args.get("shrink", True))
    except BaseException as e:
        res = {"prop": args["prop"], "sub": args["sub"], "status": "crashed", "evals": 0, "nt": [], "classes": {},
               "samples": [], "known": {}, "known_examples": {}, "skipped": 0, "invalid": 0, "budget_hit": False,
               "inconclusive": 0, "wall_s": 0.0, "exhaustive": False, "shard": args["shard"], "seed": args["seed"],
               "failure": {"case": None, "kind": "harness", "type": type(e).__name__, "message": str(e)[:2000],
                           "traceback": traceback.format_exc()[-6000:], "harness_error": True,
                           "repo_frame": None, "classified_as": None}}
    tmp = args["out"] + ".tmp"
    with open(tmp, "w") as f:
        json.dump(res, f, allow_nan=True)
    os.replace(tmp, args["out"])
    # The result is on disk. Leave without running interpreter-exit finalizers: checks that drive real worker processes
    # terminate coba's (daemon) children themselves, and multiprocessing's atexit join of a queue feeder thread can then
    # block for ever on a queue lock that a killed child still holds - that would hang the shard after its work is done.
    try:
        import multiprocessing
        for child in multiprocessing.active_children():   # no orphaned worker processes
            try: child.kill()
            except Exception: pass
    except Exception:
        pass
    sys.stdout.flush(); sys.stderr.flush()
    os._exit(0)

if __name__ == "__main__":
    main()
