#!/usr/bin/env python3
"""tools/mut.py <worktree> <PROP> <file> <old> <new> [--tier quick] : plant one textual mutant in a scratch clone, run the check, revert."""
import sys, subprocess, os
wt, prop, f, old, new = sys.argv[1:6]
extra = sys.argv[6:]
p = os.path.join(wt, f)
s = open(p).read()
if s.count(old) < 1:
    print("MUTANT-NOT-APPLICABLE: pattern not found"); sys.exit(3)
open(p, "w").write(s.replace(old, new, 1))
try:
    r = subprocess.run(["./check", prop] + extra, cwd=os.path.dirname(os.path.dirname(os.path.abspath(__file__))),
                       env=dict(os.environ, VERIF_REPO=wt), capture_output=True, text=True)
    out = r.stdout + r.stderr
    lines = [l for l in out.splitlines() if "VIOLATION" in l or l.startswith("[") or "HARNESS" in l]
    print(f"rc={r.returncode}", "|", " || ".join(l[:260] for l in lines[:3]))
finally:
    open(p, "w").write(s)
