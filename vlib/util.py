"""Small shared helpers: violation type, JSON round-trip of cases, hashing, repo path plumbing."""
import os, sys, json, math, hashlib, traceback

VERIF_HOME = os.environ.get("VERIF_HOME") or os.path.dirname(os.path.dirname(os.path.abspath(__file__)))
REPO = os.path.realpath(os.environ.get("VERIF_REPO", "/repo"))

def use_repo():
    """Make `import coba` resolve to the tree under VERIF_REPO (default /repo)."""
    if REPO not in sys.path[:1]:
        sys.path.insert(0, REPO)
    if VERIF_HOME not in sys.path:
        sys.path.insert(1, VERIF_HOME)

class Violation(Exception):
    """The oracle of a property was contradicted by the code under test."""

class Inconclusive(Exception):
    """A budget of the harness ran out; never a violation."""

def require(cond, msg, **info):
    if not cond:
        if info:
            msg = msg + " | " + ", ".join(f"{k}={_short(v)}" for k, v in info.items())
        raise Violation(msg)

def _short(v, n=300):
    s = repr(v)
    return s if len(s) <= n else s[:n] + "..."

# ---------------------------------------------------------------- JSON fidelity for cases
def to_jsonable(o):
    if o is None or isinstance(o, (bool, int, str)):
        return o
    if isinstance(o, float):
        return o
    if isinstance(o, tuple):
        return {"__t__": [to_jsonable(x) for x in o]}
    if isinstance(o, list):
        return [to_jsonable(x) for x in o]
    if isinstance(o, (bytes, bytearray)):
        return {"__b__": bytes(o).hex()}
    if isinstance(o, (set, frozenset)):
        return {"__s__": [to_jsonable(x) for x in sorted(o, key=repr)]}
    if isinstance(o, dict):
        if all(isinstance(k, str) for k in o) and not any(k in ("__t__", "__b__", "__s__", "__d__", "__r__") for k in o):
            return {k: to_jsonable(v) for k, v in o.items()}
        return {"__d__": [[to_jsonable(k), to_jsonable(v)] for k, v in o.items()]}
    return {"__r__": repr(o)}

def from_jsonable(o):
    if isinstance(o, list):
        return [from_jsonable(x) for x in o]
    if isinstance(o, dict):
        if len(o) == 1:
            (k, v), = o.items()
            if k == "__t__": return tuple(from_jsonable(x) for x in v)
            if k == "__b__": return bytes.fromhex(v)
            if k == "__s__": return set(from_jsonable(x) for x in v)
            if k == "__d__": return {from_jsonable(a): from_jsonable(b) for a, b in v}
            if k == "__r__": return v
        return {k: from_jsonable(v) for k, v in o.items()}
    return o

def canon(case) -> str:
    return json.dumps(to_jsonable(case), sort_keys=True, allow_nan=True, separators=(",", ":"))

def hash_case(case) -> str:
    return hashlib.sha1(canon(case).encode("utf-8", "surrogatepass")).hexdigest()[:16]

def in_repo_frames(tb) -> bool:
    """True when the traceback passes through a file of the tree under test."""
    for fs in traceback.extract_tb(tb):
        fn = os.path.realpath(fs.filename)
        if fn.startswith(REPO + os.sep):
            return True
    return False

def innermost_repo_frame(tb):
    last = None
    for fs in traceback.extract_tb(tb):
        fn = os.path.realpath(fs.filename)
        if fn.startswith(REPO + os.sep):
            last = (os.path.relpath(fn, REPO), fs.name)
    return last

def isnan(x):
    return isinstance(x, float) and math.isnan(x)

def same(a, b, tol=None):
    """Structural equality: NaN == NaN, int/float compare by value, tuple vs list distinguished unless caller normalises."""
    if isinstance(a, float) or isinstance(b, float):
        if isinstance(a, bool) or isinstance(b, bool):
            return a is b if isinstance(a, bool) and isinstance(b, bool) else a == b
        if not isinstance(a, (int, float)) or not isinstance(b, (int, float)):
            return False
        if isnan(a) or isnan(b):
            return isnan(a) and isnan(b)
        if tol is None or math.isinf(a) or math.isinf(b):
            return a == b
        return abs(a - b) <= tol * max(1.0, abs(a), abs(b))
    if isinstance(a, (list, tuple)) and isinstance(b, (list, tuple)):
        return type(a) is type(b) and len(a) == len(b) and all(same(x, y, tol) for x, y in zip(a, b))
    if isinstance(a, dict) and isinstance(b, dict):
        return a.keys() == b.keys() and all(same(a[k], b[k], tol) for k in a)
    return type(a) is type(b) and a == b if isinstance(a, bool) or isinstance(b, bool) else a == b
