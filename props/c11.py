"""C11 Scale and Impute apply exactly the statistics of their fitting window.

Oracle 1 (sub-checks scale, impute, grid): the reference model of vlib/model_c11.py - per feature, statistics over the
first `using` interactions with missing values ignored (sparse: an absent key counts as 0), then (x+shift)*scale resp.
replacement of None plus a 0/1 missingness feature; everything else must come back untouched.
Oracle 2 (sub-check encodings): the same table encoded as dense rows, sparse rows and scalars must give
corresponding results (no reference values involved, only the reference's notion of which features are pinned down).

A case is plain data: an abstract table `rows` (cells: number | string | None | "~nan" | "~abs"), an encoding, the
filter arguments, and how the filter is reached (directly or through Environments.scale / Environments.impute).
"""
import math, itertools, copy
from collections import abc
from hypothesis import strategies as st

from vlib.core import Sub
from vlib.util import Violation, require, use_repo, same
from vlib.model_c11 import (NAN, ABS, is_num, is_str, window_len, scale_reference, impute_reference, close, repl_matches)
use_repo()
from coba.environments.filters import Scale, Impute
from coba.environments import Environments
from coba.exceptions import CobaException
from coba.primitives import SimulatedInteraction, LoggedInteraction

ID = "C11"
LEVEL = "exploration"
DESIGN_REF = "DESIGN.md section 6, C11"
RULE = ("cases = (abstract table of 0-8 rows x 0-4 features [thorough: 0-14 x 0-5] with numeric (ints, dyadic and decimal floats, "
        "tiny/huge magnitudes), string, constant, all-missing and mixed-type columns, None/NaN/absent-key cells at generated "
        "positions incl. row 0; encoding dense tuple/list | sparse dict | scalar; simulated/logged/plain-dict interactions; "
        "shift in {numbers,min,mean,med,median}, scale in {numbers,minmax,std,iqr,maxabs}, stat in {mean,median,mode}, indicator, "
        "using in {None,1,<N,=N,>N}; reached through the filter, through Environments.scale/impute (incl. lists of statistics) "
        "or with default arguments); sub-check 'reuse' runs one filter object (directly, or joined by Environments to 2-3 members) over "
        "2-3 different tables; sub-check 'grid' enumerates all 3-row single-feature tables over a small alphabet completely; "
        "a case is non-trivial when a missing value lies in the fitting window and N > using, or a missing value sits in row 0; "
        "distinct = distinct canonical JSON of the case")
ASSUMPTIONS = [
    "missing for Impute is None (what coba's readers produce and every Impute test uses); NaN is not generated for Impute cases",
    "missing for Scale is None or NaN; both stay in place",
    "a feature's type does not change after the fitting window (a string inside the window of an otherwise numeric column is generated: the column must then be left alone)",
    "where a statistic is undefined (no non-missing value in the window; sample std of one value) the feature may be left unchanged or only shifted; the 0/1 indicator of a feature without a usable statistic is not asserted",
    "several modes with the same count: any of them is accepted",
    "a scale denominator within a factor 2 of the documented 1e-6 threshold is not asserted",
    "Scale with a non-zero shift on sparse contexts must raise the documented CobaException",
    "sparse results may spell a 0 indicator as an explicit 0 or as an absent key",
    "using=0 and negative using are not generated",
]

STRS = ["A", "B", "cc"]
NUMBER_SHIFTS = [0, 0, 0.0, 1, -2, 0.5, -3.25, 2.0]
NAMED_SHIFTS = ["min", "mean", "med", "median"]
NUMBER_SCALES = [2, 0.5, -1, 3.0, 1, 0.25]
NAMED_SCALES = ["minmax", "std", "iqr", "maxabs"]
STATS = ["mean", "median", "mode"]

# ------------------------------------------------------------------------------------------------ building inputs
def cell_value(c):
    return float("nan") if c == NAN else c

def encode_row(row, enc, keys, box):
    if enc == "dense":
        vals = [0 if c == ABS else cell_value(c) for c in row]
        return tuple(vals) if box == "tuple" else vals
    if enc == "sparse":
        return {k: cell_value(c) for k, c in zip(keys, row) if c != ABS}
    return 0 if row[0] == ABS else cell_value(row[0])

def densified(rows):
    """the table as dense/scalar encodings see it: an absent key is the value 0"""
    return [[0 if c == ABS else c for c in r] for r in rows]

def build_interactions(ctxs, ikind):
    out = []
    for i, ctx in enumerate(ctxs):
        if ikind == "sim":
            out.append(SimulatedInteraction(ctx, [(1.5, 0), (0, 3.0), (2, 2)], [0.25, float(i), 1], tag=[i, None, "t"]))
        elif ikind == "log":
            out.append(LoggedInteraction(ctx, (0, 3.0), 0.5 + i, probability=0.25, actions=[(1.5, 0), (0, 3.0)]))
        elif ikind == "logdict":
            out.append(LoggedInteraction(ctx, {"p": 2.5, "q": None}, i, probability=0.5))
        else:
            out.append({"context": ctx, "action": 4.5, "reward": 2 * i, "extra": {"k": [1.5, None]}})
    return out

class ListEnv:
    """a minimal environment for Environments(...)"""
    params = {}
    def __init__(self, interactions): self._i = interactions
    def read(self): return list(self._i)

def check_others(ins, snap, outs, what):
    require(len(outs) == len(ins), f"{what}: number of interactions changed", got=len(outs), want=len(ins))
    for i, (a, s, o) in enumerate(zip(ins, snap, outs)):
        require(same(dict(a), s), f"{what}: the input interaction was modified in place", row=i, now=dict(a), before=s)
        require(isinstance(o, abc.Mapping), f"{what}: output is not an interaction", row=i, got=o)
        require(set(o.keys()) == set(s.keys()), f"{what}: fields of the interaction changed", row=i, got=sorted(o.keys()), want=sorted(s.keys()))
        for k in s:
            if k != "context":
                require(same(o[k], s[k]), f"{what}: field {k!r} changed", row=i, got=o[k], want=s[k])

def read_env(envs):
    require(len(envs) == 1, "Environments.scale/impute must keep one pipeline per environment", got=len(envs))
    return list(envs[0].read())

def check_finalized_others(base, outs, what):
    """through Environments the pipeline ends in Finalize: compare the other fields with the unfiltered, finalized environment"""
    require(len(outs) == len(base), f"{what}: number of interactions changed", got=len(outs), want=len(base))
    for i, (b, o) in enumerate(zip(base, outs)):
        require(set(o.keys()) == set(b.keys()), f"{what}: fields changed", row=i, got=sorted(o.keys()), want=sorted(b.keys()))
        for k in b:
            if k != "context":
                require(same(o[k], b[k]) or o[k] == b[k], f"{what}: field {k!r} changed", row=i, got=o[k], want=b[k])

# ------------------------------------------------------------------------------------------------ decoding outputs
def is_seq(x):
    return isinstance(x, abc.Sequence) and not isinstance(x, (str, bytes))

def untouched(got, orig):
    """a value that must be passed through: same type, same value (NaN matches NaN)"""
    o = cell_value(orig)
    if o is None: return got is None
    if isinstance(o, float) and math.isnan(o): return isinstance(got, float) and math.isnan(got)
    return type(got) is type(o) and got == o

def scale_cells(out_ctx, row, enc, keys, i):
    """the output cells of one context, aligned with the features of the table (ABS where the key is absent)"""
    m = len(row)
    if enc == "dense":
        require(is_seq(out_ctx), "Scale: dense context did not stay a sequence", row=i, got=out_ctx)
        require(len(out_ctx) == m, "Scale: number of dense features changed", row=i, got=list(out_ctx), want_len=m)
        return list(out_ctx)
    if enc == "sparse":
        require(isinstance(out_ctx, abc.Mapping), "Scale: sparse context did not stay a mapping", row=i, got=out_ctx)
        want = [k for k, c in zip(keys, row) if c != ABS]
        require(set(out_ctx.keys()) == set(want) and len(out_ctx) == len(want), "Scale: keys of a sparse context changed", row=i, got=dict(out_ctx), want_keys=want)
        return [out_ctx[k] if c != ABS else ABS for k, c in zip(keys, row)]
    return [out_ctx]

def cell_ok(got, exp):
    if exp[0] == "same":
        return got == ABS if exp[1] == ABS else untouched(got, exp[1])
    return close(got, exp[1], exp[2])

def verify_scale(rows, enc, keys, out_ctxs, shift, scale, using, what):
    table = rows if enc == "sparse" else densified(rows)
    ref = scale_reference(table, shift, scale, using)
    got = [scale_cells(o, r, enc, keys, i) for i, (o, r) in enumerate(zip(out_ctxs, table))]
    failed, first = [], None
    for j, alts in enumerate(ref):
        if alts is None: continue
        col = [g[j] for g in got]
        if any(all(cell_ok(g, e) for g, e in zip(col, alt)) for alt in alts): continue
        alt = alts[-1]
        bad = [i for i, (g, e) in enumerate(zip(col, alt)) if not cell_ok(g, e)]
        failed.append({"feature": j, "rows": bad, "untouched": all(untouched(col[i], table[i][j]) for i in bad)})
        if first is None:
            first = (f"{what}: feature {keys[j] if enc == 'sparse' else j} differs from (x+shift)*scale over the window | "
                     f"shift={shift!r}, scale={scale!r}, using={using!r}, enc={enc}, column={[r[j] for r in table]!r}, "
                     f"got={col!r}, want={[e[1] for e in alt]!r}, first_bad_row={bad[0]}, alternatives={len(alts)}")
    if failed:
        v = Violation(first)
        v.c11 = {"op": "scale", "enc": enc, "table": table, "failed": failed, "scale": scale, "using": using}
        raise v
    return ref

def impute_layouts(ref):
    """acceptable sets of features that get an indicator"""
    req = [j for j, r in enumerate(ref) if r["ind"] == "req"]
    opt = [j for j, r in enumerate(ref) if r["ind"] == "either"]
    for k in range(len(opt) + 1):
        for sub in itertools.combinations(opt, k):
            yield sorted(req + list(sub))

def impute_cells(out_ctx, row, enc, keys, layout, i):
    """-> (value cells aligned with the table, {feature: indicator value}) or a string describing a shape problem"""
    m = len(row)
    if enc == "dense":
        if not is_seq(out_ctx): return "dense context did not stay a sequence"
        if len(out_ctx) != m + len(layout): return f"expected {m} features + {len(layout)} indicator(s), got {len(out_ctx)} values"
        return list(out_ctx[:m]), {j: out_ctx[m + p] for p, j in enumerate(layout)}
    if enc == "sparse":
        if not isinstance(out_ctx, abc.Mapping): return "sparse context did not stay a mapping"
        present = [k for k, c in zip(keys, row) if c != ABS]
        names = {j: f"{keys[j]}_is_missing" for j in layout}
        extra = set(out_ctx.keys()) - set(present) - set(names.values())
        if extra: return f"unexpected keys {sorted(map(str, extra))}"
        if any(k not in out_ctx for k in present): return "a key of the sparse context disappeared"
        return [out_ctx[k] if c != ABS else ABS for k, c in zip(keys, row)], {j: out_ctx.get(names[j], 0) for j in layout}
    if layout:
        if not is_seq(out_ctx) or len(out_ctx) != 2: return "expected [value, indicator]"
        return [out_ctx[0]], {0: out_ctx[1]}
    if is_seq(out_ctx): return "unexpected indicator"
    return [out_ctx], {}

def impute_mismatch(table, enc, keys, out_ctxs, ref, layout):
    """-> list of (message, info) for every cell that contradicts the model under this indicator layout"""
    out = []
    for i, (o, row) in enumerate(zip(out_ctxs, table)):
        dec = impute_cells(o, row, enc, keys, layout, i)
        if isinstance(dec, str):
            out.append((f"row {i}: {dec} (got {o!r})", {"kind": "shape", "row": i})); continue
        cells, inds = dec
        for j, (g, c) in enumerate(zip(cells, row)):
            r = ref[j]
            if c is None and r["imputable"]:
                if not repl_matches(g, r["repl"]):
                    out.append((f"row {i} feature {j}: missing value replaced by {g!r}, want {r['repl']!r}",
                                {"kind": "repl", "row": i, "feature": j, "left_none": g is None}))
            elif c == ABS:
                if g != ABS: out.append((f"row {i} feature {j}: absent key appeared", {"kind": "key", "row": i, "feature": j}))
            elif not untouched(g, c):
                out.append((f"row {i} feature {j}: value {c!r} became {g!r}", {"kind": "value", "row": i, "feature": j}))
        for j, v in inds.items():
            want = 1 if row[j] is None else 0
            if not (is_num(v) and v == want):
                out.append((f"row {i} feature {j}: indicator is {v!r}, want {want}", {"kind": "indicator", "row": i, "feature": j}))
    return out

def verify_impute(rows, enc, keys, out_ctxs, stat, indicator, using, what):
    table = rows if enc == "sparse" else densified(rows)
    ref = impute_reference(table, stat, indicator, using)
    best = None
    for layout in impute_layouts(ref):
        mm = impute_mismatch(table, enc, keys, out_ctxs, ref, layout)
        if not mm: return ref, layout
        if best is None or len(mm) < len(best): best = mm
    v = Violation(f"{what}: {best[0][0]} | stat={stat!r}, indicator={indicator!r}, using={using!r}, enc={enc}, table={table!r}, "
                  f"got={[o if not isinstance(o, abc.Mapping) else dict(o) for o in out_ctxs]!r}, "
                  f"indicators={[r['ind'] for r in ref]!r}, mismatches={len(best)}")
    v.c11 = {"op": "impute", "enc": enc, "table": table, "failed": [m[1] for m in best], "using": using}
    raise v

def abstract_of(out_ctxs, enc, keys):
    """turn real output contexts back into an abstract table (for chained Impute stages)"""
    def cell(v):
        return NAN if isinstance(v, float) and math.isnan(v) else v
    if not out_ctxs: return [], enc, keys
    if enc == "sparse":
        ks = list(keys)
        for o in out_ctxs:
            for k in o.keys():
                if k not in ks: ks.append(k)
        return [[cell(o[k]) if k in o else ABS for k in ks] for o in out_ctxs], "sparse", ks
    if enc == "scalar" and not any(is_seq(o) for o in out_ctxs):
        return [[cell(o)] for o in out_ctxs], "scalar", keys
    rows = [[cell(v) for v in o] for o in out_ctxs]
    return rows, "dense", list(range(len(rows[0])))

# ------------------------------------------------------------------------------------------------ run: scale
def scale_args(case):
    """-> (constructor/keyword arguments actually passed, (shift, scale, using) the documentation promises)"""
    if case.get("defaults"):
        return {}, (("min" if case["via"] == "envs" else 0), "minmax", None)
    return {"shift": case["shift"], "scale": case["scale"], "using": case["using"]}, (case["shift"], case["scale"], case["using"])

def call_scale(case, interactions):
    kw, _ = scale_args(case)
    if case["via"] == "envs":
        if kw and case.get("targets") == "list":
            envs = Environments(ListEnv(interactions)).scale(kw["shift"], kw["scale"], ["context"], kw["using"])
        else:
            envs = Environments(ListEnv(interactions)).scale(**kw)
        return read_env(envs)
    if kw and case.get("positional"):
        return list(Scale(kw["shift"], kw["scale"], "context", kw["using"]).filter(interactions))
    return list(Scale(**kw).filter(iter(interactions) if case.get("iter") else interactions))

def run_scale(case):
    rows, enc, keys = case["rows"], case["enc"], case["keys"]
    _, (shift, scale, using) = scale_args(case)
    ctxs = [encode_row(r, enc, keys, case.get("box", "tuple")) for r in rows]
    ins = build_interactions(ctxs, case.get("ikind", "sim"))
    snap = [copy.deepcopy(dict(x)) for x in ins]
    must_raise = enc == "sparse" and len(rows) > 0 and (isinstance(shift, str) or shift != 0)
    try:
        outs = call_scale(case, ins)
    except CobaException as e:
        require(must_raise and "Shift is required to be 0" in str(e), "Scale raised a CobaException", error=str(e), case=case)
        return
    require(not must_raise, "Scale with a non-zero shift over sparse contexts must be rejected (documented)", shift=shift)
    what = "Environments.scale" if case["via"] == "envs" else "Scale"
    if case["via"] == "envs":
        check_finalized_others(read_env(Environments(ListEnv(build_interactions(ctxs, case.get("ikind", "sim"))))), outs, what)
        for a, s in zip(ins, snap):
            require(same(dict(a), s), f"{what}: the input interaction was modified in place", now=dict(a), before=s)
    else:
        check_others(ins, snap, outs, what)
    verify_scale(rows, enc, keys, [o["context"] for o in outs], shift, scale, using, what)

# ------------------------------------------------------------------------------------------------ run: impute
def impute_args(case):
    if case.get("defaults"):
        return {}, (["mean"], True, None)
    stats = case["stat"]
    return {"stat": stats, "indicator": case["indicator"], "using": case["using"]}, \
           ([stats] if isinstance(stats, str) else list(stats), case["indicator"], case["using"])

def run_impute(case):
    rows, enc, keys = case["rows"], case["enc"], case["keys"]
    kw, (stats, indicator, using) = impute_args(case)
    ikind = case.get("ikind", "sim")
    ctxs = [encode_row(r, enc, keys, case.get("box", "tuple")) for r in rows]
    ins = build_interactions(ctxs, ikind)
    snap = [copy.deepcopy(dict(x)) for x in ins]
    if case["via"] == "envs":
        if kw:
            envs = Environments(ListEnv(ins)).impute(kw["stat"], kw["indicator"], kw["using"])
        else:
            envs = Environments(ListEnv(ins)).impute()
        outs = read_env(envs)
        check_finalized_others(read_env(Environments(ListEnv(build_interactions(ctxs, ikind)))), outs, "Environments.impute")
        for a, s in zip(ins, snap):
            require(same(dict(a), s), "Environments.impute: the input interaction was modified in place", now=dict(a), before=s)
        # "applied in order": the list form is the composition of the single-statistic filters, each stage checked against the model
        stage_in, t, e, k = build_interactions(ctxs, ikind), rows, enc, keys
        for s in stats:
            stage_out = list(Impute(s, indicator, using).filter(stage_in))
            verify_impute(t, e, k, [o["context"] for o in stage_out], s, indicator, using, f"Impute({s!r}) stage")
            t, e, k = abstract_of([o["context"] for o in stage_out], e, k)
            stage_in = stage_out
        want = [o["context"] for o in stage_in]
        got = [o["context"] for o in outs]
        norm = lambda c: dict(c) if isinstance(c, abc.Mapping) else (list(c) if is_seq(c) else c)
        require(len(got) == len(want) and all(same(norm(g), norm(x)) for g, x in zip(got, want)),
                "Environments.impute(list) is not the statistics applied in order", stats=stats, indicator=indicator, using=using,
                table=rows, enc=enc, got=[norm(g) for g in got], want=[norm(x) for x in want])
        return
    if kw and case.get("positional"):
        f = Impute(kw["stat"], kw["indicator"], kw["using"])
    else:
        f = Impute(**kw)
    outs = list(f.filter(iter(ins) if case.get("iter") else ins))
    check_others(ins, snap, outs, "Impute")
    verify_impute(rows, enc, keys, [o["context"] for o in outs], stats[0], indicator, using, "Impute")

# ------------------------------------------------------------------------------------------------ run: reuse (one filter object, several streams)
def _chain_impute(t, ctxs, stats, indicator, using, ikind, what):
    """the contexts a list of statistics must produce for one table: the single filters (fresh objects) applied in order,
    every stage checked against the model"""
    stage_in, tab, e, k = build_interactions(ctxs, ikind), t["rows"], t["enc"], t["keys"]
    for st_ in stats:
        stage_out = list(Impute(st_, indicator, using).filter(stage_in))
        verify_impute(tab, e, k, [o["context"] for o in stage_out], st_, indicator, using, f"{what} stage Impute({st_!r})")
        tab, e, k = abstract_of([o["context"] for o in stage_out], e, k)
        stage_in = stage_out
    return [o["context"] for o in stage_in]

def _norm_ctx(c):
    return dict(c) if isinstance(c, abc.Mapping) else (list(c) if is_seq(c) else c)

def run_reuse(case):
    """One Scale/Impute object over several different streams: every stream is fitted on its OWN window.
    mode 'object': f.filter(A), f.filter(B), [f.filter(C)], f.filter(A) again.
    mode 'envs'  : Environments(A, B[, C]).scale/impute(...) - Environments.filter joins one filter instance to every member -
                   read in the generated order (a member may be read twice)."""
    op, tables, ikind, using = case["op"], case["tables"], case.get("ikind", "sim"), case["using"]
    ctxs = [[encode_row(r, t["enc"], t["keys"], t.get("box", "tuple")) for r in t["rows"]] for t in tables]
    def verify(i, out_ctxs, what):
        t = tables[i]
        if op == "scale":
            verify_scale(t["rows"], t["enc"], t["keys"], out_ctxs, case["shift"], case["scale"], using, what)
        else:
            stats = [case["stat"]] if isinstance(case["stat"], str) else list(case["stat"])
            if len(stats) == 1:
                verify_impute(t["rows"], t["enc"], t["keys"], out_ctxs, stats[0], case["indicator"], using, what)
            else:
                want = _chain_impute(t, ctxs[i], stats, case["indicator"], using, ikind, what)
                require(len(out_ctxs) == len(want) and all(same(_norm_ctx(g), _norm_ctx(x)) for g, x in zip(out_ctxs, want)),
                        f"{what}: not the statistics applied in order to this member's own data", stats=stats, table=t["rows"],
                        got=[_norm_ctx(g) for g in out_ctxs], want=[_norm_ctx(x) for x in want])
    if case["mode"] == "object":
        f = Scale(case["shift"], case["scale"], "context", using) if op == "scale" else Impute(case["stat"], case["indicator"], using)
        order = list(range(len(tables))) + ([0] if case.get("repeat", True) else [])
        for step, i in enumerate(order):
            ins = build_interactions(ctxs[i], ikind)
            snap = [copy.deepcopy(dict(x)) for x in ins]
            outs = list(f.filter(iter(ins) if case.get("iter") else ins))
            what = f"{'Scale' if op == 'scale' else 'Impute'} object reused, call #{step + 1} (table {i})"
            check_others(ins, snap, outs, what)
            verify(i, [o["context"] for o in outs], what)
        return
    envs = Environments(*[ListEnv(build_interactions(c, ikind)) for c in ctxs])
    if op == "scale":
        envs = envs.scale(case["shift"], case["scale"], "context", using)
    else:
        envs = envs.impute(case["stat"], case["indicator"], using)
    require(len(envs) == len(tables), "Environments.scale/impute must give one pipeline per environment", got=len(envs), want=len(tables))
    members = list(envs)
    for step, i in enumerate(case["order"]):
        i = i % len(tables)
        outs = list(members[i].read())
        what = f"Environments({len(tables)} members).{op}: member {i}, read #{step + 1}"
        check_finalized_others(read_env(Environments(ListEnv(build_interactions(ctxs[i], ikind)))), outs, what)
        verify(i, [o["context"] for o in outs], what)

# ------------------------------------------------------------------------------------------------ run: encodings (metamorphic)
def num_same(a, b):
    if a is None or b is None: return a is None and b is None
    if isinstance(a, str) or isinstance(b, str): return type(a) is type(b) and a == b
    if isinstance(a, float) and math.isnan(a) or isinstance(b, float) and math.isnan(b):
        return isinstance(a, float) and isinstance(b, float) and math.isnan(a) and math.isnan(b)
    return is_num(a) and is_num(b) and abs(a - b) <= 1e-9 * max(abs(a), abs(b))

def run_encodings(case):
    rows, keys, op = case["rows"], case["keys"], case["op"]
    m = len(rows[0]) if rows else 0
    encs = ["dense", "sparse"] + (["scalar"] if m == 1 else [])
    if op == "scale" and (isinstance(case["shift"], str) or case["shift"] != 0):
        encs.remove("sparse")   # documented: rejected for sparse contexts
    dense_table = densified(rows)
    results = {}
    for enc in encs:
        ctxs = [encode_row(r, enc, keys, case.get("box", "tuple")) for r in rows]
        ins = build_interactions(ctxs, case.get("ikind", "sim"))
        if op == "scale":
            outs = list(Scale(case["shift"], case["scale"], "context", case["using"]).filter(ins))
            results[enc] = [scale_cells(o["context"], r, enc, keys, i) for i, (o, r) in enumerate(zip(outs, rows if enc == "sparse" else dense_table))]
        else:
            outs = list(Impute(case["stat"], case["indicator"], case["using"]).filter(ins))
            results[enc] = [o["context"] for o in outs]
    diffs = []   # (message, info)
    if op == "scale":
        pinned = [a is not None and len(a) == 1 for a in scale_reference(dense_table, case["shift"], case["scale"], case["using"])]
        base = results["dense"]
        for enc in encs[1:]:
            for i, (rb, ro) in enumerate(zip(base, results[enc])):
                for j in range(m):
                    if not pinned[j]: continue
                    if ro[j] == ABS:
                        if not (is_num(rb[j]) and rb[j] == 0):
                            diffs.append((f"row {i} feature {j}: an absent sparse key is the value 0, which a zero shift must keep at 0 in the dense encoding, got {rb[j]!r}",
                                          {"kind": "absent", "enc": enc, "row": i, "feature": j}))
                    elif not num_same(rb[j], ro[j]):
                        diffs.append((f"row {i} feature {j}: dense gives {rb[j]!r}, {enc} gives {ro[j]!r}",
                                      {"kind": "value", "enc": enc, "row": i, "feature": j, "untouched": untouched(ro[j], rows[i][j])}))
        if diffs:
            v = Violation(f"dense, sparse and scalar encodings of the same data are scaled differently: {diffs[0][0]} | differences={len(diffs)}, case={case!r}")
            v.c11 = {"op": "scale", "enc": "encodings", "table": rows, "failed": [d[1] for d in diffs], "scale": case["scale"], "using": case["using"]}
            raise v
        return
    ref = impute_reference(dense_table, case["stat"], case["indicator"], case["using"])
    layout = [j for j, r in enumerate(ref) if r["ind"] == "req"]
    if any(r["ind"] == "either" for r in ref): return   # the shape of the output is not fixed by the statement
    dec = {}
    for enc in encs:
        table = rows if enc == "sparse" else dense_table
        out = []
        for i, (o, r) in enumerate(zip(results[enc], table)):
            d = impute_cells(o, r, enc, keys, layout, i)
            require(not isinstance(d, str), f"Impute over the {enc} encoding: {d}", row=i, got=o if not isinstance(o, abc.Mapping) else dict(o), case=case)
            out.append(d)
        dec[enc] = out
    for enc in encs[1:]:
        for i, ((cb, ib), (co, io)) in enumerate(zip(dec["dense"], dec[enc])):
            for j in range(m):
                if co[j] == ABS:
                    if not (is_num(cb[j]) and cb[j] == 0):
                        diffs.append((f"row {i} feature {j}: absent key, but the dense encoding gives {cb[j]!r}", {"kind": "absent", "enc": enc, "row": i, "feature": j}))
                elif ref[j]["repl"] is not None and ref[j]["repl"][0] == "oneof" and len(ref[j]["repl"][1]) > 1 and rows[i][j] is None:
                    pass   # several modes: each encoding may pick its own
                elif not num_same(cb[j], co[j]):
                    diffs.append((f"row {i} feature {j}: dense gives {cb[j]!r}, {enc} gives {co[j]!r}",
                                  {"kind": "repl" if rows[i][j] is None else "value", "enc": enc, "row": i, "feature": j, "left_none": co[j] is None}))
            if not all(ib[j] == io[j] for j in layout):
                diffs.append((f"row {i}: indicators dense {ib!r}, {enc} {io!r}", {"kind": "indicator", "enc": enc, "row": i}))
    if diffs:
        v = Violation(f"dense, sparse and scalar encodings of the same data are imputed differently: {diffs[0][0]} | differences={len(diffs)}, case={case!r}")
        v.c11 = {"op": "impute", "enc": "encodings", "table": rows, "failed": [d[1] for d in diffs], "using": case["using"]}
        raise v

# ------------------------------------------------------------------------------------------------ generators
FLAVOURS = ["int", "int", "quarter", "quarter", "decimal", "mixnum", "tiny", "huge"]

def number_pool(draw, flavour):
    k = draw(st.integers(1, 4))
    ints = st.integers(-9, 9)
    if flavour == "int": base = st.integers(-9, 9)
    elif flavour == "quarter": base = ints.map(lambda i: i / 4)
    elif flavour == "decimal": base = st.integers(-99, 99).map(lambda i: i / 10)
    elif flavour == "mixnum": base = st.one_of(ints, ints.map(lambda i: i / 2), ints.map(float))
    elif flavour == "tiny": base = ints.map(lambda i: i * 2.0 ** -22)
    else: base = ints.map(lambda i: i * 2.0 ** 30 + 0.5)
    return draw(st.lists(base, min_size=k, max_size=k))

def column(draw, n, w, op, enc, kinds):
    kind = draw(st.sampled_from(kinds))
    miss_tokens = [None, NAN] if op == "scale" else [None]
    if kind == "str":
        vals = [draw(st.sampled_from(STRS)) for _ in range(n)]
    elif kind == "allmiss":
        vals = [draw(st.sampled_from(miss_tokens)) for _ in range(n)]
        if n > w and draw(st.booleans()):
            pool = number_pool(draw, "int")
            for i in range(w, n):
                if draw(st.booleans()): vals[i] = draw(st.sampled_from(pool))
        return vals
    else:
        pool = number_pool(draw, "int" if kind == "const" else draw(st.sampled_from(FLAVOURS)))
        if kind == "const": pool = pool[:1]
        vals = [draw(st.sampled_from(pool)) for _ in range(n)]
        if kind == "mixed" and w >= 1:
            vals[draw(st.integers(0, w - 1))] = draw(st.sampled_from(STRS))
    # missing / absent cells at generated positions
    density = draw(st.sampled_from([0, 0, 1, 1, 2, 3]))
    for i in range(n):
        if density and draw(st.integers(0, 5)) < density:
            tok = draw(st.sampled_from(miss_tokens + ([ABS, ABS] if enc == "sparse" else [])))
            if tok == NAN and kind == "str" and draw(st.booleans()): tok = None
            vals[i] = tok
    if n and draw(st.integers(0, 3)) == 0:
        vals[0] = draw(st.sampled_from(miss_tokens + ([ABS] if enc == "sparse" else [])))
    return vals

def draw_using(draw, n):
    mode = draw(st.sampled_from(["none", "one", "lt", "lt", "eq", "gt"]))
    if mode == "none": return None
    if mode == "one": return 1
    if mode == "lt": return draw(st.integers(1, n - 1)) if n >= 2 else 1
    if mode == "eq": return max(n, 1)
    return n + draw(st.integers(1, 3))

def draw_keys(draw, m):
    if draw(st.booleans()): return ["a", "b", "c", "d", "e", "f"][:m]
    return draw(st.permutations([0, 1, 2, 3, 4, 7]))[:m]

def draw_table(draw, tier, op, enc, kinds):
    big = tier != "quick"
    n = draw(st.sampled_from([0, 1, 2, 2, 3, 3, 4, 4, 5, 6, 8] + ([10, 14] if big else [])))
    m = 1 if enc == "scalar" else draw(st.sampled_from([0, 1, 1, 2, 2, 3, 4] + ([5] if big else [])))
    using = draw_using(draw, n)
    w = window_len(n, using)
    cols = [column(draw, n, w, op, enc, kinds) for _ in range(m)]
    rows = [[cols[j][i] for j in range(m)] for i in range(n)]
    return rows, draw_keys(draw, m), using

def common(draw, case):
    case["box"] = draw(st.sampled_from(["tuple", "list"]))
    case["ikind"] = draw(st.sampled_from(["sim", "sim", "log", "logdict", "dict"]))
    case["via"] = draw(st.sampled_from(["filter", "filter", "filter", "envs"]))
    if draw(st.sampled_from([False] * 24 + [True])): case["defaults"] = True
    if draw(st.sampled_from([False, False, False, True])): case["positional"] = True
    if draw(st.sampled_from([False, False, False, True])): case["iter"] = True
    return case

@st.composite
def scale_cases(draw, tier):
    enc = draw(st.sampled_from(["dense", "dense", "dense", "sparse", "sparse", "scalar"]))
    rows, keys, using = draw_table(draw, tier, "scale", enc, ["num"] * 6 + ["str", "str", "const", "allmiss", "mixed"])
    if enc == "sparse" and draw(st.integers(0, 9)) > 0:
        shift = draw(st.sampled_from([0, 0, 0.0]))
    else:
        shift = draw(st.sampled_from(NUMBER_SHIFTS + NAMED_SHIFTS + NAMED_SHIFTS))
    scale = draw(st.sampled_from(NUMBER_SCALES + NAMED_SCALES + NAMED_SCALES))
    case = {"op": "scale", "enc": enc, "rows": rows, "keys": keys, "shift": shift, "scale": scale, "using": using}
    common(draw, case)
    if case["via"] == "envs" and draw(st.booleans()): case["targets"] = "list"
    return case

@st.composite
def impute_cases(draw, tier):
    enc = draw(st.sampled_from(["dense", "dense", "dense", "sparse", "sparse", "scalar"]))
    rows, keys, using = draw_table(draw, tier, "impute", enc, ["num"] * 5 + ["str", "str", "str", "const", "allmiss"])
    case = {"op": "impute", "enc": enc, "rows": rows, "keys": keys, "stat": draw(st.sampled_from(STATS)),
            "indicator": draw(st.booleans()), "using": using}
    common(draw, case)
    if case["via"] == "envs" and draw(st.integers(0, 2)) > 0:
        case["stat"] = draw(st.lists(st.sampled_from(STATS), min_size=1, max_size=3))
    return case

@st.composite
def encoding_cases(draw, tier):
    op = draw(st.sampled_from(["scale", "impute"]))
    rows, keys, using = draw_table(draw, tier, op, "sparse", ["num"] * 6 + ["const", "allmiss"])
    if rows and not rows[0]:
        rows = [[1] for _ in rows]; keys = keys or ["a"]
    # string features: only without absent keys (a 0 among strings would be a column of mixed type)
    if rows and draw(st.booleans()):
        n = len(rows)
        col = [draw(st.sampled_from(STRS + [None])) for _ in range(n)]
        rows = [r + [c] for r, c in zip(rows, col)]
        keys = list(keys) + ["s"]
    case = {"op": op, "rows": rows, "keys": keys, "using": using,
            "box": draw(st.sampled_from(["tuple", "list"])), "ikind": draw(st.sampled_from(["sim", "log"]))}
    if op == "scale":
        case["shift"] = draw(st.sampled_from([0, 0, 0, 0.0, 1.5, "min", "mean", "med"]))
        case["scale"] = draw(st.sampled_from(NUMBER_SCALES + NAMED_SCALES + NAMED_SCALES))
    else:
        case["stat"] = draw(st.sampled_from(STATS))
        case["indicator"] = draw(st.booleans())
    return case

@st.composite
def reuse_cases(draw, tier):
    op = draw(st.sampled_from(["scale", "impute"]))
    k = draw(st.sampled_from([2, 2, 3]))
    kinds = ["num"] * 7 + ["str", "const", "allmiss"]
    same_shape = draw(st.booleans())   # same encoding and width: the case where stale state goes unnoticed by shape errors
    enc0 = draw(st.sampled_from(["dense", "dense", "sparse", "scalar"]))
    tables, using = [], None
    for i in range(k):
        enc = enc0 if same_shape else draw(st.sampled_from(["dense", "dense", "sparse", "scalar"]))
        rows, keys, u = draw_table(draw, tier, op, enc, kinds)
        if i == 0: using = u
        if same_shape and tables and enc != "scalar":
            m = len(tables[0]["keys"])
            if len(keys) != m:   # same number of features as the first table
                n = len(rows)
                w = window_len(n, using)
                cols = [column(draw, n, w, op, enc, kinds) for _ in range(m)]
                rows = [[cols[j][r] for j in range(m)] for r in range(n)]
            keys = tables[0]["keys"]
        tables.append({"rows": rows, "enc": enc, "keys": keys, "box": draw(st.sampled_from(["tuple", "list"]))})
    case = {"op": op, "tables": tables, "using": using, "mode": draw(st.sampled_from(["object", "envs"])),
            "ikind": draw(st.sampled_from(["sim", "sim", "log", "dict"]))}
    if op == "scale":
        sparse = any(t["enc"] == "sparse" for t in tables)
        case["shift"] = draw(st.sampled_from([0, 0.0] if sparse else NUMBER_SHIFTS + NAMED_SHIFTS + NAMED_SHIFTS))
        case["scale"] = draw(st.sampled_from(NUMBER_SCALES[:2] + NAMED_SCALES + NAMED_SCALES + NAMED_SCALES))
    else:
        case["stat"] = draw(st.sampled_from(STATS))
        case["indicator"] = draw(st.booleans())
    if case["mode"] == "object":
        if draw(st.sampled_from([False, False, True])): case["iter"] = True
    else:
        case["order"] = draw(st.lists(st.integers(0, k - 1), min_size=k, max_size=k + 2).map(lambda o: o)) if draw(st.booleans()) else list(range(k)) + [0]
        if op == "impute" and draw(st.sampled_from([False, False, True])):
            case["stat"] = draw(st.lists(st.sampled_from(STATS), min_size=1, max_size=3))
    return case

def _has_stat_content(t, op):
    return any(is_num(c) or (op == "impute" and is_str(c)) for r in t["rows"] for c in r)

def nontrivial_reuse(case):
    """at least two of the streams carry values and differ from each other (so stale state would be visible)"""
    ts = [t for t in case["tables"] if _has_stat_content(t, case["op"])]
    return len(ts) >= 2 and any(a["rows"] != b["rows"] for a, b in itertools.combinations(ts, 2))

def classes_reuse(case):
    out = [f"op={case['op']}", f"mode={case['mode']}", f"streams={len(case['tables'])}"]
    encs = {t["enc"] for t in case["tables"]}
    out.append("same-encoding" if len(encs) == 1 else "mixed-encodings")
    if len({len(t["keys"]) for t in case["tables"]}) == 1 and len(encs) == 1: out.append("same-shape")
    if case["op"] == "scale":
        out.append("named-statistic" if isinstance(case["shift"], str) or isinstance(case["scale"], str) else "numbers-only")
    elif not isinstance(case["stat"], str): out.append(f"stat-list{len(case['stat'])}")
    if case["mode"] == "envs" and len(set(i % len(case["tables"]) for i in case["order"])) < len(case["order"]): out.append("member-read-twice")
    if any(any(_missing(c, case["op"]) for c in t["rows"][0]) for t in case["tables"] if t["rows"]): out.append("missing-in-row0")
    return out

# ------------------------------------------------------------------------------------------------ grid (exhaustive)
def grid(tier):
    usings = [None, 1, 2, 5]
    ns = [3] if tier == "quick" else [1, 2, 3, 4]
    for n in ns:
        for enc in ("dense", "sparse", "scalar"):
            alpha = [None, NAN, 1, 2.5] + ([ABS] if enc == "sparse" else [])
            shifts = [0, 1.5, "min", "mean", "med"] if enc != "sparse" else [0, "min"]
            for col in itertools.product(alpha, repeat=n):
                rows = [[c] for c in col]
                for shift in shifts:
                    for scale in [2.0, "minmax", "std", "iqr", "maxabs"]:
                        for using in usings:
                            yield {"op": "scale", "enc": enc, "rows": rows, "keys": ["a"], "shift": shift, "scale": scale,
                                   "using": using, "via": "filter", "box": "tuple", "ikind": "sim"}
            alpha = [None, 1, 5, "A"] + ([ABS] if enc == "sparse" else [])
            for col in itertools.product(alpha, repeat=n):
                rows = [[c] for c in col]
                for stat in STATS:
                    for indicator in (False, True):
                        for using in usings:
                            yield {"op": "impute", "enc": enc, "rows": rows, "keys": ["a"], "stat": stat, "indicator": indicator,
                                   "using": using, "via": "filter", "box": "tuple", "ikind": "sim"}

def run_any(case):
    return run_scale(case) if case["op"] == "scale" else run_impute(case)

# ------------------------------------------------------------------------------------------------ evidence
def _missing(c, op):
    return c is None or (op == "scale" and c == NAN)

def nontrivial(case):
    rows, op = case["rows"], case["op"]
    if not rows or not rows[0]: return False
    using = None if case.get("defaults") else case["using"]
    n = len(rows)
    w = window_len(n, using)
    if any(_missing(c, op) for c in rows[0]): return True
    return using is not None and n > using and any(_missing(c, op) for r in rows[:w] for c in r)

def classes(case):
    rows, op = case["rows"], case["op"]
    n = len(rows)
    m = len(rows[0]) if rows else 0
    out = [f"op={op}", f"enc={case.get('enc', 'all')}"]
    using = None if case.get("defaults") else case["using"]
    out.append("using=" + ("None" if using is None else "1" if using == 1 else "<N" if using < n else "=N" if using == n else ">N"))
    if case.get("via") == "envs": out.append("via-Environments")
    if case.get("defaults"): out.append("default-arguments")
    if op == "scale":
        shift, scale = scale_args(case)[1][:2] if "via" in case else (case["shift"], case["scale"])
        out.append("shift=" + (shift if isinstance(shift, str) else "number"))
        out.append("scale=" + (scale if isinstance(scale, str) else "number"))
    else:
        s = "mean" if case.get("defaults") else case["stat"]
        out.append("stat=" + (s if isinstance(s, str) else "list" + str(len(s))))
        out.append(f"indicator={True if case.get('defaults') else case['indicator']}")
    if n and m:
        if any(_missing(c, op) for c in rows[0]): out.append("missing-in-row0")
        if any(c == ABS for c in rows[0]) and case.get("enc") == "sparse": out.append("sparse-key-absent-from-row0")
        w = window_len(n, using)
        cols = [[r[j] for r in rows] for j in range(m)]
        if any(_missing(c, op) for col in cols for c in col[w:]) : out.append("missing-after-window")
        if any(len({c for c in col if is_num(c)}) == 1 and sum(1 for c in col if is_num(c)) >= 2 for col in cols): out.append("constant-column")
        if any(sum(1 for c in col[:w] if is_num(c)) == 1 for col in cols): out.append("single-valued-window")
        if any(all(_missing(c, op) for c in col[:w]) for col in cols): out.append("all-missing-window")
        if any(any(is_str(c) for c in col) and any(is_num(c) for c in col) for col in cols): out.append("mixed-type-column")
        if any(all(is_str(c) or c is None or c == NAN for c in col) and any(is_str(c) for c in col) for col in cols): out.append("string-column")
    return out

# ------------------------------------------------------------------------------------------------ known findings
def _unseen_in_window(table, j, using):
    """feature j is an absent key in every interaction of the (non-empty) fitting window"""
    w = window_len(len(table), using)
    return w >= 1 and all(r[j] == ABS for r in table[:w])

def classify(case, exc):
    info = getattr(exc, "c11", None)
    if not isinstance(exc, Violation) or not info or not info["failed"]: return None
    table, using, failed = info["table"], info["using"], info["failed"]
    w = window_len(len(table), using)
    if info["enc"] not in ("sparse", "encodings"): return None
    if info["enc"] == "encodings" and any(f.get("enc") != "sparse" for f in failed): return None
    if info["op"] == "scale":
        # a sparse key that occurs in no interaction of the fitting window is never scaled, although (x+0)*number is defined
        if isinstance(info["scale"], str): return None
        for f in failed:
            if info["enc"] == "sparse":
                if not (f["untouched"] and _unseen_in_window(table, f["feature"], using) and all(i >= w for i in f["rows"])): return None
            else:
                if not (f["kind"] == "value" and f["untouched"] and f["row"] >= w and _unseen_in_window(table, f["feature"], using)): return None
        return "C11-scale-sparse-key-unseen-in-window"
    if info["op"] == "impute":
        # a None under a sparse key that occurs in no interaction of the fitting window is left None (absent = 0 would give 0)
        for f in failed:
            if not (f["kind"] == "repl" and f["left_none"] and f["row"] >= w and _unseen_in_window(table, f["feature"], using)): return None
        return "C11-impute-sparse-key-unseen-in-window"
    return None

SUBCHECKS = [
    Sub(name="scale", run=run_scale, strategy=scale_cases, nontrivial=nontrivial, classes=classes, classify=classify,
        quick=3000, thorough=100000, quick_shards=2,
        what="Scale / Environments.scale over dense, sparse and scalar contexts vs exact window statistics and (x+shift)*scale; other fields, keys, None/NaN/strings untouched"),
    Sub(name="impute", run=run_impute, strategy=impute_cases, nontrivial=nontrivial, classes=classes, classify=classify,
        quick=3000, thorough=100000, quick_shards=2,
        what="Impute / Environments.impute (incl. lists of statistics = composition in order) vs window mean/median/mode, 0/1 indicators, untouched non-missing values"),
    Sub(name="encodings", run=run_encodings, strategy=encoding_cases, nontrivial=nontrivial, classes=classes, classify=classify,
        quick=2000, thorough=60000, quick_shards=2,
        what="metamorphic: dense, sparse (absent key = 0) and scalar encodings of one table give corresponding Scale/Impute results"),
    Sub(name="reuse", run=run_reuse, strategy=reuse_cases, nontrivial=nontrivial_reuse, classes=classes_reuse, classify=classify,
        quick=1500, thorough=50000, quick_shards=2,
        what="one Scale/Impute object over 2-3 different tables in sequence (and the first again), and Environments(A,B[,C]).scale/impute (one filter instance joined to every member): every stream must equal the reference for its OWN table"),
    Sub(name="grid", run=run_any, enumerate=grid, nontrivial=nontrivial, classes=classes, classify=classify, exhaustive=True, quick_shards=2,
        what="complete enumeration: every 3-row single-feature table over {None,NaN,1,2.5,absent} x shift x scale x using (Scale) and {None,1,5,'A',absent} x stat x indicator x using (Impute), all encodings; thorough: 1-4 rows"),
]
