#!/usr/bin/env python3
"""Regenerate MANIFEST.json from the property modules that exist (props/cNN.py) and tools/levels.json."""
import json, os, re, sys
HERE = os.path.dirname(os.path.dirname(os.path.abspath(__file__)))
props = [json.loads(l) for l in open(os.path.join(HERE, "properties.jsonl"))]
levels = json.load(open(os.path.join(HERE, "tools", "levels.json")))
checks, na = [], []
for p in props:
    pid = p["id"]
    L = levels.get(pid, {})
    if os.path.exists(os.path.join(HERE, "props", pid.lower() + ".py")) and L.get("text") and not L.get("not_applicable"):
        checks.append({
            "property_id": pid,
            "quick_cmd": f"./check {pid} --tier quick",
            "thorough_cmd": f"./check {pid} --tier thorough",
            "evidence_file": f"evidence/{pid}.json",
            "replay_cmd_template": f"./check {pid} --replay {{path}}",
            "engine": "hypothesis-runner",
            "level_claimed": {"category": L.get("category", "exploration"), "text": L["text"], "design_ref": f"DESIGN.md section 6, {pid}"},
            "level_note": L["note"],
            "technique": L["technique"],
        })
    else:
        na.append({"property_id": pid, "reason": L.get("not_applicable") or "no check registered yet in this revision of /verif (work in progress; see DESIGN.md section 7)"})
m = {
    "version": 1,
    "setup_cmd": "/venv/bin/python -c 'import hypothesis' 2>/dev/null || /venv/bin/pip install --no-index --find-links /opt/veriftools/wheels hypothesis",
    "hooks": {
        "guard": "VOWPALWABBIT_COBA_VERIF",
        "enable": "no source hooks exist: every observation point is reached from outside (constructor arguments, module globals, duck-typed doubles); ./check exports VOWPALWABBIT_COBA_VERIF=1 for uniformity and imports /repo's working tree directly (editable install)",
        "baseline_off_cmd": "cd /repo && /venv/bin/python -m pytest -ra -q -p no:cacheprovider --timeout=900 --continue-on-collection-errors",
        "source_commits": [],
        "add_only": True,
    },
    "engines": [{"name": "hypothesis-runner", "path": "vlib/", "serves_properties": [c["property_id"] for c in checks],
                 "kind_free_text": "Hypothesis 6.168 strategies / generated operation sequences / bounded exhaustive enumeration, sharded over worker processes; failures are shrunk and written as JSON replay files that bypass Hypothesis"}],
    "checks": checks,
    "not_applicable": na,
    "notes": "All checks: ./check <ID> [--tier quick|thorough] [--replay FILE]; exit 0 held / 1 VIOLATION / 2 harness error. VERIF_SEED selects the seed (default 1). Known findings: known_findings.json. Newly found failures are written under failures/<ID>/ (not committed); committed regression inputs are under replays/<ID>/.",
}
json.dump(m, open(os.path.join(HERE, "MANIFEST.json"), "w"), indent=1)
print("checks:", [c["property_id"] for c in checks]); print("not_applicable:", [n["property_id"] for n in na])
