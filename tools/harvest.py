#!/usr/bin/env python3
"""tools/harvest.py [ID/n ...] : turn the shrunk failing cases of the stored seeded changes into committed replays.

For every stored change seeded/<ID>/<n> (or the ones named): the quick tier of its property is run against a throw-away
clone of /repo with the change applied (own failure directory); per sub-check the smallest reported case is then replayed
on the UNCHANGED tree and - if it passes there within LIMIT seconds - stored as replays/<ID>/seeded-<n>-<sub>.json. Committed
replays run at the start of every check, so a change of this kind is then reported deterministically, whatever VERIF_SEED is
(the generated search found several of them only at some seeds). Prints one line per change: recorded rc, rc now, what was stored.
Nothing is stored for a case that fails or is listed as a known finding on the unchanged tree."""
import sys, os, json, glob, subprocess, tempfile, shutil, time, hashlib
from concurrent.futures import ThreadPoolExecutor
H = os.path.dirname(os.path.dirname(os.path.abspath(__file__)))
LIMIT = float(os.environ.get("HARVEST_LIMIT_S", "4"))
JOBS = os.environ.get("HARVEST_JOBS", "4")
SEED = os.environ.get("VERIF_SEED", "1")

def canon(case):
    return hashlib.sha1(json.dumps(case, sort_keys=True, default=str).encode()).hexdigest()

def existing_hashes(pid):
    out = set()
    for f in glob.glob(f"{H}/replays/{pid}/*.json"):
        try: out.add(canon(json.load(open(f)).get("case")))
        except Exception: pass
    return out

def one(spec):
    pid, n = spec.split("/")
    d = f"{H}/seeded/{pid}/{n}"
    meta = json.load(open(f"{d}/meta.json"))
    rec = meta["verified"].get("check_rc")
    w = tempfile.mkdtemp(prefix="sc-hv-", dir="/tmp")
    try:
        subprocess.run(["git", "clone", "-q", "/repo", f"{w}/r"], check=True)
        if subprocess.run(["git", "-C", f"{w}/r", "apply", f"{d}/patch.diff"]).returncode != 0:
            return f"{spec} recorded={rec} PATCH-DOES-NOT-APPLY"
        rc, tried = None, []
        for seed in [SEED] + [x for x in ("2", "3") if x != SEED]:      # a change the search finds only at some seeds: try up to three
            env = dict(os.environ, VERIF_REPO=f"{w}/r", VERIF_FAILDIR=f"{w}/fail", VERIF_SEED=seed)
            p = subprocess.run([f"{H}/check", pid, "--no-evidence", "--jobs", JOBS], cwd=H, env=env, capture_output=True, text=True)
            rc = p.returncode; tried.append(f"{seed}:{rc}")
            if rc == 1 or rec != 1: break
        best = {}
        for f in glob.glob(f"{w}/fail/{pid}/*.json"):
            try: fd = json.load(open(f))
            except Exception: continue
            if fd.get("case") is None: continue
            size = len(json.dumps(fd["case"], default=str))
            if fd["sub"] not in best or size < best[fd["sub"]][0]:
                best[fd["sub"]] = (size, f, fd)
        stored, have = [], existing_hashes(pid)
        for sub, (size, f, fd) in sorted(best.items()):
            if size > 20000 or canon(fd["case"]) in have:
                continue
            t0 = time.time()
            envp = dict(os.environ, VERIF_REPLAY_LIMIT_S="20")
            envp.pop("VERIF_REPO", None)
            q = subprocess.run([f"{H}/check", pid, "--replay", f, "--no-evidence"], cwd=H, env=envp, capture_output=True, text=True)
            dt = time.time() - t0
            if q.returncode == 0 and "KNOWN-FINDING" not in q.stdout + q.stderr and dt <= LIMIT + 1.5:   # ~1.5 s interpreter + import
                os.makedirs(f"{H}/replays/{pid}", exist_ok=True)
                json.dump({"property": pid, "sub": sub, "case": fd["case"],
                           "note": f"shrunk case with which the quick tier reported seeded change {pid}/{n} ({(meta.get('summary') or '')[:160]}); passes on the unchanged tree"},
                          open(f"{H}/replays/{pid}/seeded-{n}-{sub}.json", "w"), indent=1)
                stored.append(sub)
        return f"{spec} recorded={rec} now={rc} seeds={','.join(tried)} subs={sorted(best)} stored={stored}"
    finally:
        shutil.rmtree(w, ignore_errors=True)

if __name__ == "__main__":
    specs = sys.argv[1:] or sorted(("/".join(p.split("/")[-2:]) for p in glob.glob(f"{H}/seeded/C*/[0-9]*")), key=lambda s: (s.split("/")[0], int(s.split("/")[1])))
    with ThreadPoolExecutor(int(os.environ.get("HARVEST_PAR", "4"))) as ex:
        for line in ex.map(one, specs):
            print(line, flush=True)
